"""py2lean_geom — translate the small pure geometry helpers of libNeuroML into Lean definitions.

Reads (with Python's `ast`, nothing is imported or executed) from the CURRENT working tree of the repository

    neuroml/nml/helper_methods.py   (method sources are string constants inside MethodSpec(source=...))
    neuroml/nml/nml.py              (the generated bindings that ship a copy of every helper)

the bodies of

    Point3DWithDiam.distance_to
    Segment.length / Segment.volume / Segment.surface_area            (properties)
    Cell.get_actual_proximal / get_segment_length / get_segment_surface_area / get_segment_volume

and emits `lean/NmlVerif/Gen/Geom.lean`: one Lean definition per function, polymorphic over a number type `α`
with `[GeomOps α]` (see `lean/NmlVerif/Model/GeomBase.lean`), returning `Except Err _`.

Translation rules (anything else is a *gap*: reported, never skipped):
  * `a + b`, `a - b`, `a * b`, `a / b`        -> `a +. b` ... on α;  int/float literals -> `GeomOps.lit n` (exact dyadic ratio
                                                   for non-integral literals)
  * `e ** 0.5`, `sqrt(e)`, `math.sqrt(e)`      -> `GeomOps.sqrt e`;   `e ** n` (n = 1, 2, 3, ... literal) -> `ipow e n`,
                                                   preceded by `if powOverflows e n then OverflowError` (CPython's pow)
  * `pi`, `math.pi`                            -> `GeomOps.pi`
  * `a == b`, `a != b` on numbers              -> `a =. b`, `!(a =. b)`;   `and`/`or`/`not` -> `&&`/`||`/`!`
  * `float(e)`                                 -> `e`  (SegmentParent.fraction_along is modelled as a number already)
  * `x = e`                                    -> `let x := e`
  * `if <opt> == None: A  [else: B]` / `if <opt>: A [else: B]`  (opt = .proximal / .parent of a segment)
                                               -> `match opt with | none => .. | some v => ..`
  * attribute access through a not-yet-tested optional (`segment.parent.segments`) -> `match` whose `none` branch
                                                   is `AttributeError`
  * `if c: A [elif/else: B]` followed by more statements: A (or B) must end in return/raise on every path
  * `raise K(msg)`                             -> `.error ⟨"K", "<leading constant of msg>"⟩`
  * `return e`                                 -> `.ok e`   (or the call itself when e is a helper call)
  * calls: `self.get_segment(i)`, `self.get_actual_proximal(i)` (parameters of the Lean def: open recursion, the
    knot is tied with fuel in `Model/Geom.lean`), `p.distance_to(q)`, `seg.length/.volume/.surface_area`,
    `Point3DWithDiam(x=, y=, z=[, diameter=])` (+ later `p.diameter = e`), `Segment(distal=, proximal=)`.

The two files must give the same translation for every function, otherwise a gap is reported.

Surface shapes read as the same statement (each holds for ALL inputs; the reason is next to the rule in the code):
  `x: T = e` = `x = e`;  `a, b = e1, e2` = `a = e1; b = e2` when no target is read on the right;  `pass`;
  `return A if c else B` = `if c: return A else: return B`;  `p = self.proximal` / `par = seg.parent` (alias of an optional
  member: substituted);  `return Point3DWithDiam(x=, y=, z=, diameter=)` = binding the finished point first;
  `raise K("prefix %s .." % a)` / `"prefix {} ..".format(a)` / f-string / `+`: the leading constant is the message;
  (already before: `is None`/`== None`/truthiness of the optional members, `elif`/`else` after a branch that returns or
  raises = early return, `not a == b` = `a != b`, `sqrt(e)` = `math.sqrt(e)` = `e ** 0.5`, `pi` = `math.pi`, docstrings,
  annotations of parameters and of the result).

NORMALISER (robustness: a behaviour-preserving rewrite must leave Gen/Geom.lean byte-identical, so no proof changes).
After a function has been translated as above, it is translated once more in "norm mode" into a canonical text (`canon`)
and compared with the canonical text of the reference shape of that function (py2lean_geom_canon.CANON_SRC = today's
source).  Equal canonical texts <=> the two Lean definitions are the same term up to
  (a) names of bound variables (renamed locals),   (b) unfolding of pure `let`s (a local introduced or inlined),
  (c) `match c with | .error e => .error e | .ok v => .ok v` = `c` (`x = f(..); return x` = `return f(..)`),
  (d) the order of the arms of a `match` on an optional / of an `if` whose condition is negated;
then the text of the REFERENCE translation is emitted.  Expression texts are compared literally and the order of
overflow guards, helper calls and tests is part of the canonical text: floating-point arithmetic is never re-associated or
reordered, and a rewrite that changes which exception comes first is not identified.  In every other case the function's
own translation is emitted exactly as before (or the gap is reported): nothing is guessed.
`python translators/test_py2lean_geom_norm.py` = self-test (harmless variants / breaking variants / refused shapes).
"""
import ast
import os
import re
import sys
import textwrap
from fractions import Fraction

TARGETS = [
    ("Point3DWithDiam", "distance_to"),
    ("Segment", "length"),
    ("Segment", "volume"),
    ("Segment", "surface_area"),
    ("Cell", "get_actual_proximal"),
    ("Cell", "get_segment_length"),
    ("Cell", "get_segment_surface_area"),
    ("Cell", "get_segment_volume"),
]
PROPERTIES = {("Segment", "length"), ("Segment", "volume"), ("Segment", "surface_area")}
SELF_TYPE = {"Point3DWithDiam": "pt", "Segment": "seg", "Cell": "cell"}
PARAM_TYPES = {
    ("Point3DWithDiam", "distance_to"): {"other_3d_point": "pt"},
    ("Cell", "get_actual_proximal"): {"segment_id": "id"},
    ("Cell", "get_segment_length"): {"segment_id": "id"},
    ("Cell", "get_segment_surface_area"): {"segment_id": "id"},
    ("Cell", "get_segment_volume"): {"segment_id": "id"},
}
LEAN_TY = {"num": "α", "pt": "Pt α", "seg": "Seg α", "id": "Nat"}
LEAN_RESERVED = {"at", "from", "end", "fun", "do", "then", "else", "if", "let", "have", "show", "match", "with",
                 "in", "by", "where", "open", "def", "theorem", "structure", "class", "instance", "namespace",
                 "section", "variable", "universe", "import", "for", "return", "mut", "Type", "Prop", "Sort"}
PT_FIELDS = ("x", "y", "z", "diameter")


class Gap(Exception):
    pass


def lname(n):
    return n + "'" if n in LEAN_RESERVED else n


def q(s):
    return '"' + s.replace("\\", "\\\\").replace('"', '\\"') + '"'


def where(node):
    return "line %s" % getattr(node, "lineno", "?")


# ------------------------------------------------------------------ symbolic values
class SymPt:
    """a Point3DWithDiam(...) under construction: fields set so far"""

    def __init__(self, fields):
        self.fields = dict(fields)


# ------------------------------------------------------------------ output tree
class Let:
    def __init__(self, name, expr, body):
        self.name, self.expr, self.body = name, expr, body


class Bind:        # monadic call: match call with | .error e => .error e | .ok v => body
    def __init__(self, var, call, body):
        self.var, self.call, self.body = var, call, body


class MatchOpt:    # match opt with | none => a | some v => b
    def __init__(self, opt, var, none_b, some_b, some_first=False):
        self.opt, self.var, self.none_b, self.some_b, self.some_first = opt, var, none_b, some_b, some_first


class Ite:
    def __init__(self, cond, a, b):
        self.cond, self.a, self.b = cond, a, b


class Ok:
    def __init__(self, expr):
        self.expr = expr


class Fail:
    def __init__(self, kind, msg):
        self.kind, self.msg = kind, msg


class Tail:
    def __init__(self, call):
        self.call = call


def render(t, ind):
    p = "  " * ind
    if isinstance(t, Let):
        return "%slet %s := %s\n%s" % (p, t.name, t.expr, render(t.body, ind))
    if isinstance(t, Bind):
        return "%smatch %s with\n%s| .error e => .error e\n%s| .ok %s =>\n%s" % (p, t.call, p, p, t.var, render(t.body, ind + 1))
    if isinstance(t, MatchOpt):
        n = "%s| none =>\n%s" % (p, render(t.none_b, ind + 1))
        s = "%s| some %s =>\n%s" % (p, t.var, render(t.some_b, ind + 1))
        first, second = (s, n) if t.some_first else (n, s)
        return "%smatch %s with\n%s\n%s" % (p, t.opt, first, second)
    if isinstance(t, Ite):
        return "%sif %s then\n%s\n%selse\n%s" % (p, t.cond, render(t.a, ind + 1), p, render(t.b, ind + 1))
    if isinstance(t, Ok):
        return "%s.ok %s" % (p, t.expr)
    if isinstance(t, Fail):
        return "%s.error ⟨%s, %s⟩" % (p, q(t.kind), q(t.msg))
    if isinstance(t, Tail):
        return "%s%s" % (p, t.call)
    raise AssertionError(t)


# ------------------------------------------------------------------ translation of one function
class Fn:
    def __init__(self, cls, name, node, norm=False):
        self.cls, self.name, self.node = cls, name, node
        self.ret_type = None
        self.fresh = 0
        # norm = True: "normalising" translation, used ONLY to decide whether two sources are the same Lean term (see
        # `signature` / `canon`): every bound variable gets a provisional token ‹k› (no Python identifier can look like
        # that) and a pure `x = e` binds x to the TEXT of e (the `let` is unfolded).  Never rendered to Lean.
        self.norm = norm

    def newvar(self, hint):
        self.fresh += 1
        if self.norm:
            return "‹%d›" % self.fresh
        return "%s_%d" % (hint, self.fresh) if self.fresh > 1 or hint == "t" else hint

    # ---- expressions.  returns (lean_string_atomic_or_parenthesised, type); appends hoisted steps to `pre`
    def ex(self, n, env, pre):
        if isinstance(n, ast.Constant):
            v = n.value
            if isinstance(v, bool) or not isinstance(v, (int, float)):
                raise Gap("unsupported constant %r (%s)" % (v, where(n)))
            return self.lit(v, n), "num"
        if isinstance(n, ast.Name):
            if n.id in env["vars"]:
                val, ty = env["vars"][n.id]
                if isinstance(val, SymPt):
                    return self.close_pt(val, n), "pt"
                if ty in ("opt_pt", "opt_par") and val in env["unwrapped"]:   # alias of an optional, tested since
                    return env["unwrapped"][val], ty[4:]
                return val, ty
            if n.id == "pi":
                return "(GeomOps.pi : α)", "num"
            raise Gap("unknown name %r (%s)" % (n.id, where(n)))
        if isinstance(n, ast.Attribute):
            if isinstance(n.value, ast.Name) and n.value.id == "math" and "math" not in env["vars"]:
                if n.attr == "pi":
                    return "(GeomOps.pi : α)", "num"
                raise Gap("unsupported math.%s (%s)" % (n.attr, where(n)))
            if isinstance(n.value, ast.Name) and isinstance(env["vars"].get(n.value.id, (None,))[0], SymPt):
                sp = env["vars"][n.value.id][0]
                if n.attr in sp.fields:
                    return sp.fields[n.attr], "num"
                raise Gap("field %s of constructed point read before it is set (%s)" % (n.attr, where(n)))
            v, ty = self.ex(n.value, env, pre)
            return self.attr(v, ty, n.attr, env, pre, n)
        if isinstance(n, ast.BinOp):
            if isinstance(n.op, ast.Pow):
                b, tb = self.ex(n.left, env, pre)
                self.need(tb, "num", n)
                e = n.right
                if isinstance(e, ast.Constant) and isinstance(e.value, (int, float)) and not isinstance(e.value, bool):
                    if e.value == 0.5:
                        return "(GeomOps.sqrt %s)" % b, "num"
                    if float(e.value).is_integer() and 1 <= e.value <= 16:
                        # CPython: finite base, infinite result -> OverflowError (IEEE would give inf)
                        pre.append(("guard", "(powOverflows %s %d)" % (b, int(e.value)),
                                    ("OverflowError", "(34, 'Numerical result out of range')")))
                        return "(ipow %s %d)" % (b, int(e.value)), "num"
                raise Gap("unsupported exponent in ** (%s)" % where(n))
            ops = {ast.Add: "+.", ast.Sub: "-.", ast.Mult: "*.", ast.Div: "/."}
            if type(n.op) not in ops:
                raise Gap("unsupported operator %s (%s)" % (type(n.op).__name__, where(n)))
            a, ta = self.ex(n.left, env, pre)
            b, tb = self.ex(n.right, env, pre)
            self.need(ta, "num", n)
            self.need(tb, "num", n)
            return "(%s %s %s)" % (a, ops[type(n.op)], b), "num"
        if isinstance(n, ast.UnaryOp) and isinstance(n.op, ast.Not):
            a, ta = self.ex(n.operand, env, pre)
            self.need(ta, "bool", n)
            return "(!%s)" % a, "bool"
        if isinstance(n, ast.BoolOp):
            parts = []
            for v in n.values:
                a, ta = self.ex(v, env, pre)
                self.need(ta, "bool", n)
                parts.append(a)
            return "(" + (" && " if isinstance(n.op, ast.And) else " || ").join(parts) + ")", "bool"
        if isinstance(n, ast.Compare):
            if len(n.ops) != 1:
                raise Gap("chained comparison (%s)" % where(n))
            a, ta = self.ex(n.left, env, pre)
            b, tb = self.ex(n.comparators[0], env, pre)
            op = n.ops[0]
            if ta == "num" and tb == "num" and isinstance(op, (ast.Eq, ast.NotEq)):
                c = "(%s =. %s)" % (a, b)
                return (c if isinstance(op, ast.Eq) else "(!%s)" % c), "bool"
            if ta == "id" and tb == "id" and isinstance(op, (ast.Eq, ast.NotEq)):
                c = "(%s == %s)" % (a, b)
                return (c if isinstance(op, ast.Eq) else "(!%s)" % c), "bool"
            raise Gap("unsupported comparison %s on %s/%s (%s)" % (type(op).__name__, ta, tb, where(n)))
        if isinstance(n, ast.Call):
            return self.call(n, env, pre)
        raise Gap("unsupported expression %s (%s)" % (type(n).__name__, where(n)))

    def need(self, ty, want, n):
        if ty != want:
            raise Gap("expected %s, found %s (%s)" % (want, ty, where(n)))

    def lit(self, v, n):
        f = Fraction(v)
        if f < 0:
            raise Gap("negative literal (%s)" % where(n))
        if f.denominator == 1:
            return "(GeomOps.lit %d)" % f.numerator
        return "((GeomOps.lit %d) /. (GeomOps.lit %d))" % (f.numerator, f.denominator)   # exact: denominator = 2^k

    def close_pt(self, sp, n):
        missing = [f for f in PT_FIELDS if f not in sp.fields]
        if missing:
            raise Gap("constructed Point3DWithDiam used with field(s) %s never set (%s)" % (missing, where(n)))
        return "(⟨%s, %s, %s, %s⟩ : Pt α)" % tuple(sp.fields[f] for f in PT_FIELDS)

    def attr(self, v, ty, a, env, pre, n):
        if ty in ("opt_pt", "opt_par"):           # access through an optional that was not tested: AttributeError on None
            var = self.newvar(re.sub(r"\W+", "_", v).strip("_"))
            pre.append(("unwrap", var, v))
            env["unwrapped"][v] = var
            v, ty = var, ty[4:]
        if ty == "pt" and a in PT_FIELDS:
            return "%s.%s" % (v, a), "num"
        if ty == "seg":
            if a in ("proximal", "parent"):
                key = "%s.%s" % (v, a)
                if key in env["unwrapped"]:
                    return env["unwrapped"][key], ("pt" if a == "proximal" else "par")
                return key, ("opt_pt" if a == "proximal" else "opt_par")
            if a == "distal":
                return "%s.distal" % v, "pt"
            if a in ("length", "volume", "surface_area"):
                var = self.newvar(a)
                pre.append(("bind", var, "Segment.%s %s" % (a, v)))
                return var, "num"
        if ty == "par":
            if a == "segments":
                return "%s.segments" % v, "id"
            if a == "fraction_along":
                return "%s.fraction_along" % v, "num"
        raise Gap("unsupported attribute .%s on %s (%s)" % (a, ty, where(n)))

    def call(self, n, env, pre):
        f = n.func
        if isinstance(f, ast.Name) and f.id not in env["vars"]:
            if f.id == "sqrt" and len(n.args) == 1 and not n.keywords:
                a, ta = self.ex(n.args[0], env, pre)
                self.need(ta, "num", n)
                return "(GeomOps.sqrt %s)" % a, "num"
            if f.id == "float" and len(n.args) == 1 and not n.keywords:
                a, ta = self.ex(n.args[0], env, pre)
                self.need(ta, "num", n)
                return a, "num"
            if f.id == "Point3DWithDiam" and not n.args:
                fields = {}
                for kw in n.keywords:
                    if kw.arg not in PT_FIELDS:
                        raise Gap("Point3DWithDiam(%s=...) (%s)" % (kw.arg, where(n)))
                    a, ta = self.ex(kw.value, env, pre)
                    self.need(ta, "num", n)
                    fields[kw.arg] = a
                return SymPt(fields), "sympt"
            if f.id == "Segment" and not n.args:
                kws = {kw.arg: kw.value for kw in n.keywords}
                if set(kws) - {"distal", "proximal"} or "distal" not in kws:
                    raise Gap("Segment(...) with keywords %s (%s)" % (sorted(kws), where(n)))
                d, td = self.ex(kws["distal"], env, pre)
                self.need(td, "pt", n)
                if "proximal" in kws:
                    p, tp = self.ex(kws["proximal"], env, pre)
                    if tp == "pt":
                        p = "(some %s)" % p
                    elif tp != "opt_pt":
                        raise Gap("Segment(proximal=<%s>) (%s)" % (tp, where(n)))
                else:
                    p = "none"
                return "({ proximal := %s, distal := %s, parent := none } : Seg α)" % (p, d), "seg"
            raise Gap("unsupported call %s(...) (%s)" % (f.id, where(n)))
        if isinstance(f, ast.Attribute):
            if isinstance(f.value, ast.Name) and f.value.id == "math" and "math" not in env["vars"]:
                if f.attr == "sqrt" and len(n.args) == 1 and not n.keywords:
                    a, ta = self.ex(n.args[0], env, pre)
                    self.need(ta, "num", n)
                    return "(GeomOps.sqrt %s)" % a, "num"
                raise Gap("unsupported math.%s(...) (%s)" % (f.attr, where(n)))
            if isinstance(f.value, ast.Name) and env["vars"].get(f.value.id, (None, None))[1] == "cell":
                if f.attr in ("get_segment", "get_actual_proximal") and len(n.args) == 1 and not n.keywords:
                    a, ta = self.ex(n.args[0], env, pre)
                    self.need(ta, "id", n)
                    var = self.newvar("t")
                    pre.append(("bind", var, "%s %s" % (f.attr, a)))
                    return var, ("seg" if f.attr == "get_segment" else "pt")
                raise Gap("unsupported cell method %s (%s)" % (f.attr, where(n)))
            v, ty = self.ex(f.value, env, pre)
            if ty == "pt" and f.attr == "distance_to" and len(n.args) == 1 and not n.keywords:
                a, ta = self.ex(n.args[0], env, pre)
                self.need(ta, "pt", n)
                var = self.newvar("t")
                pre.append(("bind", var, "Point3DWithDiam.distance_to %s %s" % (v, a)))
                return var, "num"
            raise Gap("unsupported method call .%s on %s (%s)" % (f.attr, ty, where(n)))
        raise Gap("unsupported call (%s)" % where(n))

    # ---- statements
    def wrap(self, pre, body, env_names=None):
        """put hoisted steps (in order) in front of `body`"""
        for step in reversed(pre):
            if step[0] == "bind":
                body = Bind(step[1], step[2], body)
            elif step[0] == "guard":
                body = Ite(step[1], Fail(*step[2]), body)
            else:
                body = MatchOpt(step[2], step[1], Fail("AttributeError", "'NoneType' object has no attribute"), body)
        return body

    @staticmethod
    def terminates(stmts):
        if not stmts:
            return False
        s = stmts[-1]
        if isinstance(s, (ast.Return, ast.Raise)):
            return True
        if isinstance(s, ast.If):
            return Fn.terminates(s.body) and Fn.terminates(s.orelse)
        return False

    def none_test(self, test, env):
        """(opt_lean, opt_type, body_is_none_branch) when `test` is a None-test of a segment's optional member"""
        node, is_none = None, None
        if isinstance(test, ast.Compare) and len(test.ops) == 1 and isinstance(test.comparators[0], ast.Constant) \
                and test.comparators[0].value is None:
            if isinstance(test.ops[0], (ast.Eq, ast.Is)):
                node, is_none = test.left, True
            elif isinstance(test.ops[0], (ast.NotEq, ast.IsNot)):
                node, is_none = test.left, False
        elif isinstance(test, (ast.Attribute, ast.Name)):
            node, is_none = test, False           # truthiness of an object without __bool__/__len__: `is not None`
        elif isinstance(test, ast.UnaryOp) and isinstance(test.op, ast.Not) \
                and isinstance(test.operand, (ast.Attribute, ast.Name)):
            node, is_none = test.operand, True
        if node is None:
            return None
        pre = []
        try:
            v, ty = self.ex(node, env, pre)
        except Gap:
            return None
        if pre or ty not in ("opt_pt", "opt_par"):
            if ty in ("pt", "par") and not pre:
                raise Gap("None-test of a member already known to be present (%s)" % where(test))
            return None
        return v, ty, is_none

    def block(self, stmts, env):
        if not stmts:
            raise Gap("%s.%s: control reaches the end of the function without return (returns None)" % (self.cls, self.name))
        s, rest = stmts[0], stmts[1:]
        if isinstance(s, ast.Expr) and isinstance(s.value, ast.Constant) and isinstance(s.value.value, str):
            return self.block(rest, env)          # docstring / bare string
        if isinstance(s, ast.Pass):
            return self.block(rest, env)          # no effect
        if isinstance(s, ast.Return) and isinstance(s.value, ast.IfExp):
            # `return A if c else B`  =  `if c: return A` / `else: return B`   (c is evaluated first and exactly one of
            # A, B after it, in both forms)
            e = s.value
            branch = lambda v: [ast.copy_location(ast.Return(value=v), s)]
            return self.block([ast.copy_location(ast.If(test=e.test, body=branch(e.body), orelse=branch(e.orelse)), s)]
                              + list(rest), env)
        if isinstance(s, ast.AnnAssign):
            # `x: T = e` = `x = e` (annotations of locals are not evaluated inside a function body)
            if not (isinstance(s.target, ast.Name) and s.value is not None and s.simple):
                raise Gap("unsupported annotated assignment (%s)" % where(s))
            return self.block([ast.copy_location(ast.Assign(targets=[s.target], value=s.value), s)] + list(rest), env)
        if isinstance(s, ast.Assign) and len(s.targets) == 1 and isinstance(s.targets[0], ast.Tuple) \
                and isinstance(s.value, ast.Tuple):
            # `a, b = e1, e2` = `a = e1; b = e2` when no target name is read by any of the right-hand sides (then the
            # right-hand sides are evaluated in the same order and see the same values; binding a local raises nothing)
            tg, vs = s.targets[0].elts, s.value.elts
            if len(tg) != len(vs) or not all(isinstance(t, ast.Name) for t in tg) or len({t.id for t in tg}) != len(tg):
                raise Gap("unsupported tuple assignment (%s)" % where(s))
            read = {m.id for v in vs for m in ast.walk(v) if isinstance(m, ast.Name)}
            if read & {t.id for t in tg}:
                raise Gap("tuple assignment whose targets are read on its right-hand side (%s)" % where(s))
            seq = [ast.copy_location(ast.Assign(targets=[t], value=v), s) for t, v in zip(tg, vs)]
            return self.block(seq + list(rest), env)
        if isinstance(s, ast.Return):
            if rest:
                raise Gap("statements after return (%s)" % where(s))
            if s.value is None:
                raise Gap("bare return (%s)" % where(s))
            pre = []
            v, ty = self.ex(s.value, env, pre)
            if isinstance(v, SymPt):
                # `return Point3DWithDiam(x=, y=, z=, diameter=)`: the finished point (close_pt refuses a point with a
                # field that was never set); same value as binding it to a local first
                v, ty = self.close_pt(v, s), "pt"
            if ty not in ("num", "pt"):
                raise Gap("return of %s (%s)" % (ty, where(s)))
            if self.ret_type not in (None, ty):
                raise Gap("return types differ: %s / %s (%s)" % (self.ret_type, ty, where(s)))
            self.ret_type = ty
            if pre and pre[-1][0] == "bind" and pre[-1][1] == v:     # `return helper(...)`: tail call
                return self.wrap(pre[:-1], Tail(pre[-1][2]))
            return self.wrap(pre, Ok(v))
        if isinstance(s, ast.Raise):
            if rest:
                raise Gap("statements after raise (%s)" % where(s))
            return self.raise_(s)
        if isinstance(s, ast.Assign):
            if len(s.targets) != 1:
                raise Gap("multiple assignment targets (%s)" % where(s))
            t = s.targets[0]
            pre = []
            if isinstance(t, ast.Name):
                v, ty = self.ex(s.value, env, pre)
                env2 = self.fork(env)
                if isinstance(v, SymPt):
                    if not isinstance(s.value, ast.Call):
                        # `q = p` with p under construction: a later `p.diameter = e` would also change q (same object)
                        raise Gap("second name for a point under construction (%s)" % where(s))
                    env2["vars"][t.id] = (v, "sympt")
                    return self.wrap(pre, self.block(rest, env2))
                if ty in ("opt_pt", "opt_par") and not pre:
                    # alias of an optional member (`p = self.proximal`): a second name for the same object - members are
                    # never assigned in the translated functions (that is a gap) - so it is substituted, not bound
                    env2["vars"][t.id] = (v, ty)
                    return self.block(rest, env2)
                if ty not in ("num", "pt", "seg", "id"):
                    raise Gap("assignment of %s to %s (%s)" % (ty, t.id, where(s)))
                if self.norm:
                    # v is a bound variable (result of a helper call) or the text of a pure, total expression; the
                    # guards / calls that evaluating it needs stay HERE, in order (`pre`), only the name is dropped
                    env2["vars"][t.id] = (v, ty)
                    return self.wrap(pre, self.block(rest, env2))
                nm = lname(t.id)
                if pre and pre[-1][0] == "bind" and pre[-1][1] == v:   # x = helper(...): bind straight to x
                    pre[-1] = ("bind", nm, pre[-1][2])
                    env2["vars"][t.id] = (nm, ty)
                    return self.wrap(pre, self.block(rest, env2))
                env2["vars"][t.id] = (nm, ty)
                return self.wrap(pre, Let(nm, v, self.block(rest, env2)))
            if isinstance(t, ast.Attribute) and isinstance(t.value, ast.Name) \
                    and isinstance(env["vars"].get(t.value.id, (None,))[0], SymPt) and t.attr in PT_FIELDS:
                v, ty = self.ex(s.value, env, pre)
                self.need(ty, "num", s)
                env2 = self.fork(env)
                sp = SymPt(env["vars"][t.value.id][0].fields)
                sp.fields[t.attr] = v
                env2["vars"][t.value.id] = (sp, "sympt")
                return self.wrap(pre, self.block(rest, env2))
            raise Gap("unsupported assignment target (%s)" % where(s))
        if isinstance(s, ast.If):
            a_term, b_term = self.terminates(s.body), self.terminates(s.orelse)
            if a_term:
                A, B = s.body, list(s.orelse) + list(rest)
            elif b_term:
                A, B = list(s.body) + list(rest), s.orelse
            elif not rest:
                A, B = s.body, s.orelse
            else:
                raise Gap("if-statement whose branches fall through to later statements (%s)" % where(s))
            nt = self.none_test(s.test, env)
            if nt is not None:
                v, ty, body_is_none = nt
                var = self.newvar(re.sub(r"\W+", "_", v).strip("_"))
                env_some = self.fork(env)
                env_some["unwrapped"][v] = var
                if body_is_none:
                    return MatchOpt(v, var, self.block(A, self.fork(env)), self.block(B, env_some))
                return MatchOpt(v, var, self.block(B, self.fork(env)), self.block(A, env_some), some_first=True)
            pre = []
            c, tc = self.ex(s.test, env, pre)
            self.need(tc, "bool", s)
            return self.wrap(pre, Ite(c, self.block(A, self.fork(env)), self.block(B, self.fork(env))))
        raise Gap("unsupported statement %s (%s)" % (type(s).__name__, where(s)))

    @staticmethod
    def fork(env):
        return {"vars": dict(env["vars"]), "unwrapped": dict(env["unwrapped"])}

    def raise_(self, s):
        e = s.exc
        if not (isinstance(e, ast.Call) and isinstance(e.func, ast.Name) and len(e.args) == 1 and not e.keywords):
            raise Gap("unsupported raise (%s)" % where(s))
        m = e.args[0]
        while isinstance(m, ast.BinOp) and isinstance(m.op, ast.Add):
            m = m.left
        if isinstance(m, ast.JoinedStr) and m.values and isinstance(m.values[0], ast.Constant):
            m = m.values[0]
        # "prefix %s ..." % args  /  "prefix {} ...".format(args): the text before the first conversion is a literal
        # prefix of the message (only the leading constant is modelled, whichever way the message is assembled)
        if isinstance(m, ast.BinOp) and isinstance(m.op, ast.Mod) and isinstance(m.left, ast.Constant) \
                and isinstance(m.left.value, str) and m.left.value.split("%", 1)[0] and "%" in m.left.value:
            m = ast.Constant(value=m.left.value.split("%", 1)[0])
        elif isinstance(m, ast.Call) and isinstance(m.func, ast.Attribute) and m.func.attr == "format" \
                and isinstance(m.func.value, ast.Constant) and isinstance(m.func.value.value, str) \
                and "{" in m.func.value.value and m.func.value.value.split("{", 1)[0]:
            m = ast.Constant(value=m.func.value.value.split("{", 1)[0])
        if not (isinstance(m, ast.Constant) and isinstance(m.value, str)):
            raise Gap("raise message does not start with a string constant (%s)" % where(s))
        return Fail(e.func.id, m.value)

    def translate(self):
        head, body = self.parts()
        return head + render(body, 1) + "\n"

    def signature(self):
        """canonical text of the translation (norm mode): equal signatures = the same Lean function, see `canon`"""
        assert self.norm
        head, body = self.parts()
        return rename_provisional("H[%s]%s" % (head, canon(body)))

    def parts(self):
        fn = self.node
        key = (self.cls, self.name)
        decos = [ast.dump(d) for d in fn.decorator_list]
        is_prop = decos == [ast.dump(ast.Name(id="property", ctx=ast.Load()))]
        if key in PROPERTIES and not is_prop:
            raise Gap("%s.%s is expected to be a @property" % key)
        if key not in PROPERTIES and decos:
            raise Gap("%s.%s has unexpected decorators" % key)
        a = fn.args
        if a.vararg or a.kwarg or a.kwonlyargs or a.posonlyargs or a.defaults or a.kw_defaults:
            raise Gap("%s.%s: unsupported parameter list" % key)
        names = [x.arg for x in a.args]
        if not names or names[0] != "self":
            raise Gap("%s.%s: first parameter is not self" % key)
        env = {"vars": {"self": ("self", SELF_TYPE[self.cls])}, "unwrapped": {}}
        params = []
        if self.cls == "Cell":
            params.append("(get_segment : Nat → Except Err (Seg α))")
            params.append("(get_actual_proximal : Nat → Except Err (Pt α))")
        else:
            params.append("(self : %s)" % LEAN_TY[SELF_TYPE[self.cls]])
        for nm in names[1:]:
            ty = PARAM_TYPES.get(key, {}).get(nm)
            if ty is None:
                raise Gap("%s.%s: unknown parameter %s" % (self.cls, self.name, nm))
            env["vars"][nm] = (lname(nm), ty)
            params.append("(%s : %s)" % (lname(nm), LEAN_TY[ty]))
        body = self.block(list(fn.body), env)
        head = "def %s.%s {α : Type} [GeomOps α] %s :\n    Except Err (%s) :=\n" % (
            self.cls, self.name, " ".join(params), LEAN_TY[self.ret_type])
        return head, body


# ------------------------------------------------------------------ normaliser: which translations are the same function
def is_atomic(x):
    """x is one token or one parenthesised group (everything `Fn.ex` returns is)"""
    if not x:
        return False
    if x[0] != "(":
        return not any(c in x for c in " ()")
    depth = 0
    for i, c in enumerate(x):
        depth += c == "("
        depth -= c == ")"
        if depth == 0:
            return i == len(x) - 1
    return False


def strip_not(c):
    """X when c is the text `(!X)` of a negated condition, else None"""
    if c.startswith("(!") and c.endswith(")") and is_atomic(c) and is_atomic(c[2:-1]):
        return c[2:-1]
    return None


def canon(t):
    """Canonical text of an output tree produced in norm mode (bound variables are provisional tokens, pure lets are
    already unfolded).  Two trees with the same canonical text (after `rename_provisional`) denote the same Lean
    function; each identification is an equality of Lean terms that holds for ALL inputs:
      * names of bound variables                                   - alpha-equivalence
      * `let x := e; b` = b[e/x], e a pure total term                - zeta (the guards / calls needed to evaluate e are
                                                                      separate nodes and keep their place and order)
      * `match c with | .error e => .error e | .ok v => .ok v` = c  - eta for `Except` (x = f(); return x = return f())
      * `match o with | some v => A | none => B`: order of the arms - the arms are disjoint and exhaustive
      * `if !c then A else B` = `if c then B else A`                 - Bool case split
    Nothing else: in particular no arithmetic is touched (expression texts are compared literally, so `a+b` and `b+a`,
    `(a*b)*c` and `a*(b*c)`, `x/2` and `0.5*x` stay different), and the ORDER of guards, helper calls and tests is kept
    (so a rewrite that changes which exception is raised first is not identified with the original)."""
    if isinstance(t, Bind):
        if isinstance(t.body, Ok) and t.body.expr == t.var:
            return "T[%s]" % t.call
        return "B[%s|%s|%s]" % (t.var, t.call, canon(t.body))
    if isinstance(t, Tail):
        return "T[%s]" % t.call
    if isinstance(t, MatchOpt):
        return "M[%s|%s|%s|%s]" % (t.opt, t.var, canon(t.none_b), canon(t.some_b))
    if isinstance(t, Ite):
        c, a, b = t.cond, t.a, t.b
        while strip_not(c) is not None:
            c, a, b = strip_not(c), b, a
        return "I[%s|%s|%s]" % (c, canon(a), canon(b))
    if isinstance(t, Ok):
        return "O[%s]" % t.expr
    if isinstance(t, Fail):
        return "F[%s|%s]" % (q(t.kind), q(t.msg))
    raise AssertionError(t)     # a Let cannot occur in norm mode


def rename_provisional(text):
    """provisional tokens ‹k› -> ‹#i› in order of first occurrence in the canonical text (a binder occurs before its uses)"""
    seen = {}

    def sub(m):
        return seen.setdefault(m.group(0), "‹#%d›" % (len(seen) + 1))
    return re.sub(r"‹\d+›", sub, text)


_REF = None


def reference():
    """{key: (lean_text, signature)} of the canonical shapes in py2lean_geom_canon.CANON_SRC"""
    global _REF
    if _REF is None:
        _REF = {}
        try:
            sys.path.insert(0, os.path.dirname(os.path.abspath(__file__)))
            from py2lean_geom_canon import CANON_SRC
        except ImportError:
            CANON_SRC = {}
        finally:
            sys.path.pop(0)
        for key, src in CANON_SRC.items():
            try:
                node = ast.parse(src).body[0]
                _REF[key] = (Fn(key[0], key[1], node).translate(), Fn(key[0], key[1], node, norm=True).signature())
            except (Gap, SyntaxError, RecursionError, AssertionError, IndexError):
                pass           # no reference for this function: its current source is emitted as it is
    return _REF


NORMALISED = []     # [(file label, class, function)] of the last translate_repo: emitted in the canonical shape


def emit(cls, name, node, label=""):
    """Lean text for the CURRENT source `node`.  If its translation is the same function as the translation of the
    canonical shape (equal signatures), the canonical text is emitted (so that Gen/Geom.lean stays byte-identical under
    behaviour-preserving rewrites of the surface syntax); otherwise - and always when in doubt - its own translation."""
    text = Fn(cls, name, node).translate()                     # raises Gap exactly as before: nothing is guessed
    ref = reference().get((cls, name))
    if ref is not None and ref[0] != text:
        try:
            if Fn(cls, name, node, norm=True).signature() == ref[1]:
                NORMALISED.append((label, cls, name))
                return ref[0]
        except (Gap, AssertionError, RecursionError):
            pass
    return text


# ------------------------------------------------------------------ source extraction
def find_in_nml(tree):
    out = {}
    for node in tree.body:
        if isinstance(node, ast.ClassDef) and node.name in SELF_TYPE:
            for it in node.body:
                if isinstance(it, ast.FunctionDef) and (node.name, it.name) in TARGETS:
                    out.setdefault((node.name, it.name), []).append(it)
    return out


def find_in_helpers(tree):
    """MethodSpec(name=, source='''...''', class_names=...) calls; the source is class-body text"""
    out = {}
    problems = []
    for node in ast.walk(tree):
        if not (isinstance(node, ast.Call) and isinstance(node.func, ast.Name) and node.func.id == "MethodSpec"):
            continue
        kw = {k.arg: k.value for k in node.keywords}
        src, cn = kw.get("source"), kw.get("class_names")
        if not (isinstance(src, ast.Constant) and isinstance(src.value, str)):
            continue
        classes = []
        if isinstance(cn, ast.Constant) and isinstance(cn.value, str):
            classes = [cn.value]
        elif isinstance(cn, (ast.List, ast.Tuple)):
            classes = [e.value for e in cn.elts if isinstance(e, ast.Constant)]
        classes = [c for c in classes if c in SELF_TYPE]
        if not classes:
            continue
        try:
            sub = ast.parse("class __Spec__:\n" + src.value + "\n    pass\n")
        except SyntaxError as e:
            problems.append("helper_methods.py: MethodSpec for %s does not parse: %s" % (classes, e))
            continue
        for it in sub.body[0].body:
            if isinstance(it, ast.FunctionDef):
                for c in classes:
                    if (c, it.name) in TARGETS:
                        out.setdefault((c, it.name), []).append(it)
    return out, problems


def env_checks(nml_tree):
    """facts the translation rules rely on"""
    gaps = []
    has_pi = has_sqrt = False
    rebound = set()
    for node in nml_tree.body:
        if isinstance(node, ast.ImportFrom) and node.module == "math":
            for al in node.names:
                if al.name == "pi" and al.asname in (None, "pi"):
                    has_pi = True
                if al.name == "sqrt" and al.asname in (None, "sqrt"):
                    has_sqrt = True
        elif isinstance(node, (ast.FunctionDef, ast.ClassDef)) and node.name in ("pi", "sqrt", "float"):
            rebound.add(node.name)
        elif isinstance(node, ast.Assign):
            for t in node.targets:
                if isinstance(t, ast.Name) and t.id in ("pi", "sqrt", "float", "math"):
                    rebound.add(t.id)
    if not has_pi:
        gaps.append("nml.py: `from math import pi` not found at module level")
    if not has_sqrt:
        gaps.append("nml.py: `from math import sqrt` not found at module level")
    for r in sorted(rebound):
        gaps.append("nml.py: module-level name %s is rebound" % r)
    for node in nml_tree.body:
        if isinstance(node, ast.ClassDef) and node.name in ("Point3DWithDiam", "SegmentParent", "BaseWithoutId"):
            for it in node.body:
                if isinstance(it, ast.FunctionDef) and it.name in ("__bool__", "__len__", "__eq__", "__ne__"):
                    gaps.append("nml.py: class %s defines %s (truthiness / ==None rules no longer apply)" % (node.name, it.name))
    return gaps


HEADER = """\
/-
GENERATED by translators/py2lean_geom.py from neuroml/nml/helper_methods.py and neuroml/nml/nml.py
(both files gave this same text). Regenerated on every `bin/check C12`; do not edit.
-/
import NmlVerif.Model.GeomBase
set_option linter.unusedVariables false

namespace NmlVerif.Gen.Geom
open NmlVerif.Geom

"""
FOOTER = "end NmlVerif.Gen.Geom\n"


RET_TYPE = {("Cell", "get_actual_proximal"): "pt"}


def stub(key):
    cls, name = key
    if cls == "Cell":
        params = "(get_segment : Nat → Except Err (Seg α)) (get_actual_proximal : Nat → Except Err (Pt α)) (segment_id : Nat)"
    elif cls == "Point3DWithDiam":
        params = "(self : Pt α) (other_3d_point : Pt α)"
    else:
        params = "(self : Seg α)"
    return ("/-- `%s.%s` — NOT TRANSLATED (see the translator gap reported for this run); stub so that the rest compiles -/\n"
            "def %s.%s {α : Type} [GeomOps α] %s :\n    Except Err (%s) :=\n  .error ⟨\"Untranslated\", \"%s.%s\"⟩\n"
            % (cls, name, cls, name, params, LEAN_TY[RET_TYPE.get(key, "num")], cls, name))


def translate_repo(repo):
    """returns (lean_text, gaps)"""
    gaps = []
    del NORMALISED[:]
    hp = os.path.join(repo, "neuroml", "nml", "helper_methods.py")
    np_ = os.path.join(repo, "neuroml", "nml", "nml.py")
    with open(hp, encoding="utf-8") as fh:
        htree = ast.parse(fh.read())
    with open(np_, encoding="utf-8") as fh:
        ntree = ast.parse(fh.read())
    gaps += env_checks(ntree)
    hfun, problems = find_in_helpers(htree)
    gaps += problems
    nfun = find_in_nml(ntree)
    chunks = []
    for key in TARGETS:
        texts = {}
        for label, table in (("helper_methods.py", hfun), ("nml.py", nfun)):
            nodes = table.get(key, [])
            if len(nodes) != 1:
                gaps.append("%s: %d definitions of %s.%s (expected 1)" % (label, len(nodes), key[0], key[1]))
                continue
            try:
                texts[label] = emit(key[0], key[1], nodes[0], label)
            except Gap as g:
                gaps.append("%s: %s.%s: %s" % (label, key[0], key[1], g))
            except RecursionError:
                gaps.append("%s: %s.%s: expression too deep" % (label, key[0], key[1]))
        if len(texts) == 2:
            if texts["helper_methods.py"] != texts["nml.py"]:
                gaps.append("%s.%s: helper_methods.py and nml.py translate differently" % key)
            chunks.append("/-- `%s.%s` -/\n%s" % (key[0], key[1], texts["nml.py"]))
        elif len(texts) == 1:
            chunks.append("/-- `%s.%s` (only one source translated) -/\n%s" % (key[0], key[1], list(texts.values())[0]))
        else:
            # neither source could be translated (the gap is reported above): emit a stub with the right signature so that
            # the OTHER functions still compile, the driver still runs and only the obligations about this function break
            chunks.append(stub(key))
    return HEADER + "\n".join(chunks) + "\n" + FOOTER, gaps


def regenerate(repo, out_path):
    text, gaps = translate_repo(repo)
    old = None
    if os.path.exists(out_path):
        with open(out_path, encoding="utf-8") as fh:
            old = fh.read()
    if old != text:
        os.makedirs(os.path.dirname(out_path), exist_ok=True)
        tmp = out_path + ".tmp%d" % os.getpid()
        with open(tmp, "w", encoding="utf-8") as fh:
            fh.write(text)
        os.replace(tmp, out_path)
    return gaps


def print_canon(repo):
    """text of translators/py2lean_geom_canon.py's CANON_SRC for the tree `repo` (to refresh the reference shapes after an
    accepted change of the code): the functions of nml.py without docstrings and annotations, `ast.unparse`d"""
    with open(os.path.join(repo, "neuroml", "nml", "nml.py"), encoding="utf-8") as fh:
        found = find_in_nml(ast.parse(fh.read()))
    print("CANON_SRC = {")
    for key in TARGETS:
        n = found[key][0]
        b = n.body
        if isinstance(b[0], ast.Expr) and isinstance(b[0].value, ast.Constant) and isinstance(b[0].value.value, str):
            n.body = b[1:]
        n.returns = None
        for a in n.args.args:
            a.annotation = None
        print("    (%r, %r): \'\'\'\\\n%s\n\'\'\'," % (key[0], key[1], ast.unparse(n).replace("\\", "\\\\")))
    print("}")


if __name__ == "__main__":
    args = [a for a in sys.argv[1:] if not a.startswith("--")]
    repo = args[0] if args else os.environ.get("VERIF_REPO", "/repo")
    if "--print-canon" in sys.argv:
        print_canon(repo)
        sys.exit(0)
    here = os.path.dirname(os.path.dirname(os.path.abspath(__file__)))
    out = args[1] if len(args) > 1 else os.path.join(here, "lean", "NmlVerif", "Gen", "Geom.lean")
    gs = regenerate(repo, out)
    for g in gs:
        print("GAP:", g)
    for n in NORMALISED:
        print("normalised to the canonical shape: %s %s.%s" % n)
    print("wrote", out, "gaps:", len(gs))
