"""Canonical surface shapes of the functions `py2lean_geom` translates (reference for its normaliser).

Each entry is the body of the function as the repository has it TODAY (docstrings and comments dropped, otherwise
`ast.unparse` of neuroml/nml/nml.py).  It is NOT a model of the code and takes no part in the translation of a changed
function: `py2lean_geom` translates the CURRENT source, and only when that translation and the translation of the entry
below are the same Lean term up to (a) names of bound variables, (b) unfolding of pure `let`s, (c) `match c with
| .error e => .error e | .ok v => .ok v` = `c`, (d) order of the two arms of a `match`/`if` (with the condition negated)
does it emit the text of the entry's translation instead (byte-identical `Gen/Geom.lean`, so the proofs are untouched).
A stale entry (the code legitimately changed) costs robustness only, never soundness: the current source is then emitted
as it is.  Regenerate after an accepted change of the code with `python translators/py2lean_geom.py --print-canon`.
"""

CANON_SRC = {
    ('Point3DWithDiam', 'distance_to'): '''\
def distance_to(self, other_3d_point):
    a_x = self.x
    a_y = self.y
    a_z = self.z
    b_x = other_3d_point.x
    b_y = other_3d_point.y
    b_z = other_3d_point.z
    distance = ((a_x - b_x) ** 2 + (a_y - b_y) ** 2 + (a_z - b_z) ** 2) ** 0.5
    return distance
''',
    ('Segment', 'length'): '''\
@property
def length(self):
    if self.proximal == None:
        raise Exception('Cannot get length of segment ' + str(self.id) + ' using the length property, since no proximal point is set on it (the proximal point comes from the parent segment). Use the method get_segment_length(segment_id) on the cell instead.')
    prox_x = self.proximal.x
    prox_y = self.proximal.y
    prox_z = self.proximal.z
    dist_x = self.distal.x
    dist_y = self.distal.y
    dist_z = self.distal.z
    length = ((prox_x - dist_x) ** 2 + (prox_y - dist_y) ** 2 + (prox_z - dist_z) ** 2) ** 0.5
    return length
''',
    ('Segment', 'volume'): '''\
@property
def volume(self):
    if self.proximal == None:
        raise Exception('Cannot get volume of segment ' + str(self.id) + ' using the volume property, since no proximal point is set on it (the proximal point comes from the parent segment). Use the method get_segment_volume(segment_id) on the cell instead.')
    prox_rad = self.proximal.diameter / 2.0
    dist_rad = self.distal.diameter / 2.0
    if self.proximal.x == self.distal.x and self.proximal.y == self.distal.y and (self.proximal.z == self.distal.z):
        if prox_rad != dist_rad:
            raise Exception('Cannot get volume of segment ' + str(self.id) + '. The (x,y,z) coordinates of the proximal and distal points match (i.e. it is a sphere), but the diameters of these points are different, making the volume calculation ambiguous.')
        return 4.0 / 3 * pi * prox_rad ** 3
    length = self.length
    volume = pi / 3 * length * (prox_rad ** 2 + dist_rad ** 2 + prox_rad * dist_rad)
    return volume
''',
    ('Segment', 'surface_area'): '''\
@property
def surface_area(self):
    if self.proximal == None:
        raise Exception('Cannot get surface area of segment ' + str(self.id) + ' using the surface_area property, since no proximal point is set on it (the proximal point comes from the parent segment). Use the method get_segment_surface_area(segment_id) on the cell instead.')
    prox_rad = self.proximal.diameter / 2.0
    dist_rad = self.distal.diameter / 2.0
    if self.proximal.x == self.distal.x and self.proximal.y == self.distal.y and (self.proximal.z == self.distal.z):
        if prox_rad != dist_rad:
            raise Exception('Cannot get surface area of segment ' + str(self.id) + '. The (x,y,z) coordinates of the proximal and distal points match (i.e. it is a sphere), but the diameters of these points are different, making the surface area calculation ambiguous.')
        return 4.0 * pi * prox_rad ** 2
    length = self.length
    surface_area = pi * (prox_rad + dist_rad) * sqrt((prox_rad - dist_rad) ** 2 + length ** 2)
    return surface_area
''',
    ('Cell', 'get_actual_proximal'): '''\
def get_actual_proximal(self, segment_id):
    segment = self.get_segment(segment_id)
    if segment.proximal:
        return segment.proximal
    parent = self.get_segment(segment.parent.segments)
    fract = float(segment.parent.fraction_along)
    if fract == 1:
        return parent.distal
    elif fract == 0:
        return self.get_actual_proximal(segment.parent.segments)
    else:
        pd = parent.distal
        pp = self.get_actual_proximal(segment.parent.segments)
        p = Point3DWithDiam(x=(1 - fract) * pp.x + fract * pd.x, y=(1 - fract) * pp.y + fract * pd.y, z=(1 - fract) * pp.z + fract * pd.z)
        p.diameter = (1 - fract) * pp.diameter + fract * pd.diameter
        return p
''',
    ('Cell', 'get_segment_length'): '''\
def get_segment_length(self, segment_id):
    segment = self.get_segment(segment_id)
    if segment.proximal:
        return segment.length
    else:
        prox = self.get_actual_proximal(segment_id)
        length = segment.distal.distance_to(prox)
        return length
''',
    ('Cell', 'get_segment_surface_area'): '''\
def get_segment_surface_area(self, segment_id):
    segment = self.get_segment(segment_id)
    if segment.proximal:
        return segment.surface_area
    else:
        prox = self.get_actual_proximal(segment_id)
        temp_seg = Segment(distal=segment.distal, proximal=prox)
        return temp_seg.surface_area
''',
    ('Cell', 'get_segment_volume'): '''\
def get_segment_volume(self, segment_id):
    segment = self.get_segment(segment_id)
    if segment.proximal:
        return segment.volume
    else:
        prox = self.get_actual_proximal(segment_id)
        temp_seg = Segment(distal=segment.distal, proximal=prox)
        return temp_seg.volume
''',
}
