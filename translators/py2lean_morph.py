"""py2lean_morph — translate the graph / tree-metric helper methods of `Cell` (property C13) into Lean definitions.

Reads (Python `ast`; nothing is imported or executed) from the CURRENT working tree of the repository

    neuroml/nml/helper_methods.py   (method sources are string constants inside MethodSpec(source=...))
    neuroml/nml/nml.py              (the generated bindings that ship a copy of every helper)

and writes `lean/NmlVerif/Gen/Morph.lean` against the hand-written vocabulary `lean/NmlVerif/Model/MorphBase.lean`
(`CellS` = the cell object with its two caches, dict operations, the networkx API with an executable shortest path).
`Props/C13Gen.lean` proves every generated definition equal to the hand model (`Model/MorphCell.lean`).

TRANSLATED statement by statement, compositionally (everything is taken from the source: order of statements, nesting,
conditions, arithmetic, comparison operators, argument order of the networkx calls, which cache attribute is read /
written, default argument values):

    get_segment_adjacency_list, get_graph, get_distance, get_all_distances_from_segment, get_segments_at_distance,
    get_branching_points, get_extremeties, get_morphology_root

How: continuation-passing over the statement list. Every method becomes `CellS -> args -> CellS x Option result` (`none` = an exception
leaves the method; the cell is returned as it is at that moment, so a cache filled before the raise stays filled);
`self` is an ordinary (re-bound) variable, `self.attr = v` re-binds it, a call of a stateful method re-binds it.
`if` duplicates the continuation (so `return` / `continue` in a branch need nothing special); `for` becomes `forOpt`
over the tuple of variables the body assigns; `try/except K` is resolved STATICALLY: every operation that can raise
carries the set of exception classes it can raise (table below), the innermost enclosing handler of that class is
spliced in at the raise site, an uncaught exception is `none`.

PINNED (AST must equal the recorded text exactly, docstrings / comments / blank lines aside; the hand model
`orderedSegments` / `segmentLocationInfoG` of `Model/Morph.lean` stands for them, tied by correspondence):

    get_ordered_segments_in_groups, get_segment_location_info

`get_actual_proximal` / `get_segment_length` are translated by `py2lean_geom.py` (C12) into `Gen/Geom.lean`;
`Props/C13Geom.lean` ties them to this model.

Everything that is not understood is a GAP: reported (the check then treats the translation obligation as broken and
multiplies its search budget) and rendered as `unsupported_<n>` so that `Gen/Morph.lean` cannot be proved equal to the
hand model.  Both files must give the same translation.
"""
import ast
import hashlib
import os
import sys

sys.path.insert(0, os.path.dirname(os.path.abspath(__file__)))
import pynorm  # noqa: E402

TRANSLATED = ["get_segment_adjacency_list", "get_graph", "get_distance", "get_all_distances_from_segment",
              "get_segments_at_distance", "get_branching_points", "get_morphology_root", "get_extremeties"]
PINNED = ["get_ordered_segments_in_groups", "get_segment_location_info"]

# Lean result type, parameters (name, Lean type); defaults are READ from the source and emitted as definitions
METHODS = {
    "get_segment_adjacency_list": ("Adj", []),
    "get_graph": ("Graph", []),
    "get_distance": ("Rat", [("dest", "Nat"), ("source", "Nat")]),
    "get_all_distances_from_segment": ("RMap", [("seg_id", "Nat")]),
    "get_segments_at_distance": ("RMap", [("distance", "Rat"), ("src_seg", "Nat")]),
    "get_branching_points": ("List Nat", []),
    "get_morphology_root": ("Nat", []),
    "get_extremeties": ("RMap", []),
}
# types of local variables that start from an empty literal / constructor
def empty_dict_type(fn, name):
    """type of a local that starts as `{}`, from how it is filled (names are canonical after normalisation, so the type
    cannot be keyed by name): `name[k].append(..)` / `name[k] = []` -> dict of lists (Adj), `name[k] = <value>` -> RMap"""
    kinds = set()
    for node in ast.walk(fn):
        if isinstance(node, ast.Call) and isinstance(node.func, ast.Attribute) and node.func.attr == "append" \
                and isinstance(node.func.value, ast.Subscript) and isinstance(node.func.value.value, ast.Name) \
                and node.func.value.value.id == name:
            kinds.add("Adj")
        if isinstance(node, ast.Assign) and len(node.targets) == 1 and isinstance(node.targets[0], ast.Subscript) \
                and isinstance(node.targets[0].value, ast.Name) and node.targets[0].value.id == name:
            kinds.add("Adj" if isinstance(node.value, ast.List) and not node.value.elts else "RMap")
    return kinds.pop() if len(kinds) == 1 else None
CACHE_ATTRS = {"adjacency_list": "OptAdj", "cell_graph": "OptGraph"}
# exception classes each fallible operation can raise
K_GET_SEGMENT = {"ValueError"}
K_SEG_LENGTH = {"ValueError", "AttributeError", "Exception", "OverflowError"}
K_ATTR_NONE = {"AttributeError"}
K_DIV = {"ZeroDivisionError"}
K_INDEX = {"IndexError"}
K_KEY = {"KeyError"}
K_ASSERT = {"AssertionError"}
K_NX_PATH = {"NodeNotFound", "NetworkXNoPath"}
K_NX_SSD = {"NodeNotFound"}
K_ANY = {"*"}


class Gap(Exception):
    pass


def src_of(node):
    try:
        return ast.unparse(node).split("\n")[0][:110]
    except Exception:  # noqa
        return type(node).__name__


class Env:
    """variables in scope: python name -> type; known non-None optional attribute paths; handlers; loop state"""

    def __init__(self, vars_, handlers=None, loop=None, known=None, fresh=None):
        self.vars = dict(vars_)
        self.handlers = list(handlers or [])       # innermost last: (set of class names, closure(env, ind) -> text) | "barrier"
        self.loop = loop                           # closure(env, ind) -> text for `continue` / end of body
        self.known = dict(known or {})             # "segment.parent" -> lean variable holding the non-None value
        self.fresh = fresh if fresh is not None else [0]

    def copy(self, **kw):
        e = Env(self.vars, self.handlers, self.loop, self.known, self.fresh)
        for k, v in kw.items():
            setattr(e, k, v)
        return e

    def bind(self, name, typ):
        e = self.copy()
        e.vars = dict(self.vars)
        e.vars[name] = typ
        e.known = {k: v for k, v in self.known.items() if not (k == name or k.startswith(name + "."))}
        return e

    def tmp(self, base):
        self.fresh[0] += 1
        return "%s_%d" % (base, self.fresh[0])


def pad(ind):
    return " " * ind


class Tr:
    def __init__(self, label, defaults):
        self.label = label
        self.gaps = []
        self.nunsup = 0
        self.defaults = defaults                   # method -> {param: python default node}

    # ------------------------------------------------------------------ failure / handlers
    def gap(self, node, why):
        self.gaps.append("%s: line %s: %s" % (self.label, getattr(node, "lineno", "?"), why))
        self.nunsup += 1
        return "unsupported_%d" % self.nunsup

    def raise_(self, kinds, env, ind, node):
        """Lean text for `an exception of one of `kinds` is raised here`"""
        crossed = False
        for h in reversed(env.handlers):
            if h == "barrier":
                crossed = True
                continue
            ks, clo = h
            if "*" in kinds or "*" in ks:
                return pad(ind) + self.gap(node, "cannot resolve statically which exception reaches the handler: " + src_of(node))
            hit = ks & kinds
            if hit:
                if hit != kinds:
                    return pad(ind) + self.gap(node, "operation may raise %s, handler catches only %s" % (sorted(kinds), sorted(ks)))
                if crossed:
                    return pad(ind) + self.gap(node, "exception caught outside the enclosing loop: " + src_of(node))
                return clo(env, ind)
        # uncaught: the exception leaves the method with the cell as it is now (inside a loop body: leaves the loop)
        return pad(ind) + ("none" if env.loop is not None else "(self, none)")

    # ------------------------------------------------------------------ expressions (CPS: k(text, type, env, ind) -> text)
    def lit(self, node):
        v = node.value
        if isinstance(v, bool) or v is None:
            raise Gap("literal %r" % (v,))
        if isinstance(v, int):
            return str(v), "Num"
        if isinstance(v, float) and v == int(v) and v >= 0:
            return "(%d : Rat)" % int(v), "Rat"
        raise Gap("literal %r" % (v,))

    def expr(self, node, env, ind, k):
        """translate `node`; fallible sub-operations are emitted as enclosing matches"""
        if isinstance(node, ast.Constant):
            t, ty = self.lit(node)
            return k(t, ty, env, ind)
        if isinstance(node, ast.Name):
            if node.id not in env.vars:
                raise Gap("unknown variable %s" % node.id)
            return k(node.id, env.vars[node.id], env, ind)
        if isinstance(node, ast.Attribute):
            return self.attribute(node, env, ind, k)
        if isinstance(node, ast.BinOp):
            ops = {ast.Add: "+", ast.Sub: "-", ast.Mult: "*", ast.Div: "/"}
            if type(node.op) not in ops:
                raise Gap("operator " + type(node.op).__name__)
            op = ops[type(node.op)]

            def k1(a, ta, env1, ind1):
                def k2(b, tb, env2, ind2):
                    ty = "Rat" if "Rat" in (ta, tb) or op == "/" else ("Nat" if "Nat" in (ta, tb) else "Num")
                    if op == "/":
                        if ty != "Rat":
                            raise Gap("division of non-floats")
                        return (pad(ind2) + "if %s = 0 then\n" % b + self.raise_(K_DIV, env2, ind2 + 2, node) + "\n" +
                                pad(ind2) + "else\n" + k("(%s / %s)" % (a, b), "Rat", env2, ind2 + 2))
                    return k("(%s %s %s)" % (a, op, b), ty, env2, ind2)
                return self.expr(node.right, env1, ind1, k2)
            return self.expr(node.left, env, ind, k1)
        if isinstance(node, ast.Compare):
            if len(node.ops) != 1:
                raise Gap("chained comparison")
            ops = {ast.Gt: ">", ast.Lt: "<", ast.GtE: "≥", ast.LtE: "≤", ast.Eq: "=", ast.NotEq: "≠"}
            o = node.ops[0]
            if isinstance(o, (ast.In, ast.NotIn)):
                def k1(a, ta, env1, ind1):
                    def k2(d, td, env2, ind2):
                        if td not in ("Adj", "RMap"):
                            raise Gap("`in` on a non-dict")
                        t = "dictHas %s %s" % (d, a)
                        return k("(!(%s))" % t if isinstance(o, ast.NotIn) else "(%s)" % t, "Bool", env2, ind2)
                    return self.expr(node.comparators[0], env1, ind1, k2)
                return self.expr(node.left, env, ind, k1)
            if type(o) not in ops:
                raise Gap("comparison " + type(o).__name__)

            def k1(a, ta, env1, ind1):
                def k2(b, tb, env2, ind2):
                    return k("decide (%s %s %s)" % (a, ops[type(o)], b), "Bool", env2, ind2)
                return self.expr(node.comparators[0], env1, ind1, k2)
            return self.expr(node.left, env, ind, k1)
        if isinstance(node, ast.Call):
            return self.call(node, env, ind, k)
        if isinstance(node, ast.Subscript):
            # xs[0] on a list
            if isinstance(node.slice, ast.Constant) and isinstance(node.slice.value, int) and node.slice.value >= 0:
                def k1(a, ta, env1, ind1):
                    if ta != "List Nat":
                        raise Gap("index into " + ta)
                    v = env1.tmp("item")
                    return (pad(ind1) + "match %s[%d]? with\n" % (a, node.slice.value) +
                            pad(ind1) + "| none =>\n" + self.raise_(K_INDEX, env1, ind1 + 2, node) + "\n" +
                            pad(ind1) + "| some %s =>\n" % v + k(v, "Nat", env1.bind(v, "Nat"), ind1 + 2))
                return self.expr(node.value, env, ind, k1)
            raise Gap("subscript " + src_of(node))
        if isinstance(node, ast.ListComp):
            return self.listcomp(node, env, ind, k)
        raise Gap("expression " + src_of(node))

    def attribute(self, node, env, ind, k):
        path = ast.unparse(node)
        base = node.value
        # self.morphology.segments
        if path == "self.morphology.segments":
            return k("self.segments", "Morph", env, ind)
        if isinstance(base, ast.Name) and base.id in env.vars:
            bt = env.vars[base.id]
            if bt == "Seg" and node.attr == "id":
                return k("%s.id" % base.id, "Nat", env, ind)
            if bt == "Graph" and node.attr == "out_degree":
                return k("(nx_out_degree %s)" % base.id, "Degrees", env, ind)
            if bt == "Graph" and node.attr == "in_degree":
                return k("(nx_in_degree %s)" % base.id, "Degrees", env, ind)
        # <seg>.parent.segments / <seg>.parent.fraction_along  (parent may be None -> AttributeError)
        if (isinstance(base, ast.Attribute) and base.attr == "parent" and isinstance(base.value, ast.Name)
                and env.vars.get(base.value.id) == "Seg" and node.attr in ("segments", "fraction_along")):
            ppath = ast.unparse(base)
            proj = "1" if node.attr == "segments" else "2"
            ty = "Nat" if node.attr == "segments" else "Rat"
            if ppath in env.known:
                return k("%s.%s" % (env.known[ppath], proj), ty, env, ind)
            v = env.tmp(base.value.id + "_parent")
            env2 = env.copy(known=dict(env.known))
            env2.known[ppath] = v
            return (pad(ind) + "match %s.parent with\n" % base.value.id +
                    pad(ind) + "| none =>\n" + self.raise_(K_ATTR_NONE, env, ind + 2, node) + "\n" +
                    pad(ind) + "| some %s =>\n" % v + k("%s.%s" % (v, proj), ty, env2, ind + 2))
        raise Gap("attribute " + path)

    def self_call(self, node, env, ind, k):
        """self.<method>(...)"""
        name = node.func.attr
        if name == "get_segment":
            if len(node.args) != 1 or node.keywords:
                raise Gap("get_segment arguments")

            def k1(a, ta, env1, ind1):
                v = env1.tmp("seg")
                return (pad(ind1) + "match find self.segments %s with\n" % a +
                        pad(ind1) + "| none =>\n" + self.raise_(K_GET_SEGMENT, env1, ind1 + 2, node) + "\n" +
                        pad(ind1) + "| some %s =>\n" % v + k(v, "Seg", env1.bind(v, "Seg"), ind1 + 2))
            return self.expr(node.args[0], env, ind, k1)
        if name == "get_segment_length":
            if len(node.args) != 1 or node.keywords:
                raise Gap("get_segment_length arguments")

            def k1(a, ta, env1, ind1):
                v = env1.tmp("length")
                return (pad(ind1) + "match L self.segments %s with\n" % a +
                        pad(ind1) + "| none =>\n" + self.raise_(K_SEG_LENGTH, env1, ind1 + 2, node) + "\n" +
                        pad(ind1) + "| some %s =>\n" % v + k(v, "Rat", env1.bind(v, "Rat"), ind1 + 2))
            return self.expr(node.args[0], env, ind, k1)
        if name in METHODS:
            rtype, params = METHODS[name]
            args = self.bind_args(node, name, params)

            def go(i, acc, env1, ind1):
                if i == len(args):
                    v = env1.tmp("r")
                    call = " ".join(["%s L self" % name] + acc)
                    env2 = env1.bind(v, rtype)
                    return (pad(ind1) + "match %s with\n" % call +
                            pad(ind1) + "| (self, none) =>\n" + self.raise_(K_ANY, env1, ind1 + 2, node) + "\n" +
                            pad(ind1) + "| (self, some %s) =>\n" % v + k(v, rtype, env2, ind1 + 2))
                a = args[i]
                if isinstance(a, str):
                    return go(i + 1, acc + [a], env1, ind1)
                return self.expr(a, env1, ind1, lambda t, ty, e, n: go(i + 1, acc + [t], e, n))
            return go(0, [], env, ind)
        raise Gap("call of self.%s" % name)

    def bind_args(self, node, name, params):
        """positional + keyword arguments -> one entry per parameter (ast node, or the text of the default)"""
        out = [None] * len(params)
        if len(node.args) > len(params):
            raise Gap("too many arguments for %s" % name)
        for i, a in enumerate(node.args):
            out[i] = a
        pn = [p for p, _ in params]
        for kw in node.keywords:
            if kw.arg not in pn or out[pn.index(kw.arg)] is not None:
                raise Gap("keyword argument %s of %s" % (kw.arg, name))
            out[pn.index(kw.arg)] = kw.value
        for i, (p, _) in enumerate(params):
            if out[i] is None:
                if p not in self.defaults.get(name, {}):
                    raise Gap("argument %s of %s missing" % (p, name))
                out[i] = "%s_default_%s" % (name, p)
        return out

    def call(self, node, env, ind, k):
        f = node.func
        if isinstance(f, ast.Attribute) and isinstance(f.value, ast.Name) and f.value.id == "self":
            return self.self_call(node, env, ind, k)
        fn = ast.unparse(f)
        if fn == "float" and len(node.args) == 1 and not node.keywords:
            def k1(a, ta, env1, ind1):
                if ta != "Rat":
                    raise Gap("float() of a non-float")
                return k(a, "Rat", env1, ind1)
            return self.expr(node.args[0], env, ind, k1)
        if fn == "len" and len(node.args) == 1 and not node.keywords:
            def k1(a, ta, env1, ind1):
                if not ta.startswith("List"):
                    raise Gap("len() of " + ta)
                return k("%s.length" % a, "Nat", env1, ind1)
            return self.expr(node.args[0], env, ind, k1)
        if fn == "nx.DiGraph" and not node.args and not node.keywords:
            return k("nx_DiGraph", "Graph", env, ind)
        if fn == "getattr" and len(node.args) == 3 and ast.unparse(node.args[0]) == "self" \
                and isinstance(node.args[1], ast.Constant) and node.args[1].value in CACHE_ATTRS \
                and isinstance(node.args[2], ast.Constant) and node.args[2].value is None:
            a = node.args[1].value
            return k("self.%s" % a, CACHE_ATTRS[a], env, ind)
        if fn in ("nx.dijkstra_path_length", "nx.single_source_dijkstra"):
            sig = {"nx.dijkstra_path_length": ["G", "source", "target"],
                   "nx.single_source_dijkstra": ["G", "source", "target", "cutoff"]}[fn]
            got = {}
            if len(node.args) > len(sig):
                raise Gap("arguments of " + fn)
            for i, a in enumerate(node.args):
                got[sig[i]] = a
            for kw in node.keywords:
                if kw.arg not in sig or kw.arg in got:
                    raise Gap("keyword %s of %s" % (kw.arg, fn))
                got[kw.arg] = kw.value
            if fn == "nx.dijkstra_path_length":
                if set(got) != {"G", "source", "target"}:
                    raise Gap("arguments of " + fn)
                order = ["G", "source", "target"]
            else:
                if not {"G", "source"} <= set(got) or "target" in got:
                    raise Gap("arguments of " + fn)
                order = ["G", "source"] + (["cutoff"] if "cutoff" in got else [])
            want = {"G": "Graph", "source": "Nat", "target": "Nat", "cutoff": "Rat"}

            def go(i, acc, env1, ind1):
                if i == len(order):
                    v = env1.tmp("r")
                    if fn == "nx.dijkstra_path_length":
                        callt, rt, kinds = "nx_dijkstra_path_length %s %s %s" % tuple(acc), "Rat", K_NX_PATH
                    else:
                        cut = "(some %s)" % acc[2] if len(acc) == 3 else "none"
                        callt, rt, kinds = "nx_single_source_dijkstra %s %s %s" % (acc[0], acc[1], cut), "SSD", K_NX_SSD
                    return (pad(ind1) + "match %s with\n" % callt +
                            pad(ind1) + "| none =>\n" + self.raise_(kinds, env1, ind1 + 2, node) + "\n" +
                            pad(ind1) + "| some %s =>\n" % v + k(v, rt, env1.bind(v, rt), ind1 + 2))

                def k1(t, ty, e, n):
                    if ty != want[order[i]] and not (ty == "Num" and want[order[i]] in ("Nat", "Rat")):
                        raise Gap("argument %s of %s has type %s" % (order[i], fn, ty))
                    return go(i + 1, acc + [t], e, n)
                return self.expr(got[order[i]], env1, ind1, k1)
            return go(0, [], env, ind)
        raise Gap("call " + src_of(node))

    def listcomp(self, node, env, ind, k):
        """[n for (n, d) in graph.out_degree if <cond on d>]"""
        if len(node.generators) != 1:
            raise Gap("nested comprehension")
        g = node.generators[0]
        if g.is_async or len(g.ifs) != 1 or not isinstance(node.elt, ast.Name):
            raise Gap("comprehension shape " + src_of(node))
        if not (isinstance(g.target, ast.Tuple) and len(g.target.elts) == 2 and all(isinstance(e, ast.Name) for e in g.target.elts)):
            raise Gap("comprehension target")
        a, b = g.target.elts[0].id, g.target.elts[1].id
        if node.elt.id != a:
            raise Gap("comprehension element is not the node")

        def k1(it, ty, env1, ind1):
            if ty != "Degrees":
                raise Gap("comprehension over " + ty)
            envb = env1.bind(a, "Nat").bind(b, "Nat")
            cond = self.expr(g.ifs[0], envb, 0, lambda t, ty2, e, n: t)
            if "\n" in cond:
                raise Gap("fallible comprehension condition")
            return k("(%s.filterMap (fun (%s, %s) => if %s then some %s else none))" % (it, a, b, cond, a), "List Nat", env1, ind1)
        return self.expr(g.iter, env, ind, k1)

    # ------------------------------------------------------------------ conditions
    def cond(self, node, env, ind, k):
        """k(bool text, env, ind)"""
        def k1(t, ty, env1, ind1):
            if ty != "Bool":
                raise Gap("condition of type " + ty)
            return k(t, env1, ind1)
        return self.expr(node, env, ind, k1)

    # ------------------------------------------------------------------ statements
    def assigned(self, stmts):
        """names (re)bound by a block, in order of first occurrence"""
        out = []

        def add(n):
            if n not in out:
                out.append(n)

        def walk(st):
            if isinstance(st, ast.Assign):
                for t in st.targets:
                    tgt(t)
                expr_effects(st.value)
            elif isinstance(st, ast.AugAssign):
                tgt(st.target)
            elif isinstance(st, ast.Expr):
                v = st.value
                if isinstance(v, ast.Call) and isinstance(v.func, ast.Attribute):
                    b = v.func.value
                    while isinstance(b, (ast.Subscript, ast.Attribute)):
                        b = b.value
                    if isinstance(b, ast.Name) and not (isinstance(v.func.value, ast.Name) and v.func.value.id in ("nx",)):
                        if b.id != "self":
                            add(b.id)
                expr_effects(v)
            elif isinstance(st, (ast.If, ast.For, ast.While)):
                if isinstance(st, ast.For):
                    pass
                for s in st.body + st.orelse:
                    walk(s)
                if isinstance(st, ast.If):
                    expr_effects(st.test)
            elif isinstance(st, ast.Try):
                for s in st.body:
                    walk(s)
                for h in st.handlers:
                    for s in h.body:
                        walk(s)
            elif isinstance(st, (ast.Return, ast.Assert)):
                v = st.value if isinstance(st, ast.Return) else st.test
                if v is not None:
                    expr_effects(v)

        def tgt(t):
            if isinstance(t, ast.Name):
                add(t.id)
            elif isinstance(t, ast.Tuple):
                for e in t.elts:
                    tgt(e)
            elif isinstance(t, ast.Subscript):
                b = t.value
                while isinstance(b, ast.Subscript):
                    b = b.value
                if isinstance(b, ast.Name):
                    add(b.id)
            elif isinstance(t, ast.Attribute) and isinstance(t.value, ast.Name) and t.value.id == "self":
                add("self")

        def expr_effects(e):
            for n in ast.walk(e):
                if isinstance(n, ast.Call) and isinstance(n.func, ast.Attribute) and isinstance(n.func.value, ast.Name) \
                        and n.func.value.id == "self" and n.func.attr in METHODS:
                    add("self")
        for s in stmts:
            walk(s)
        return out

    def block(self, stmts, env, ind, k):
        """k(env, ind) = what follows the block when it falls through"""
        if not stmts:
            return k(env, ind)
        st, rest = stmts[0], stmts[1:]
        try:
            return self.stmt(st, rest, env, ind, k)
        except Gap as g:
            return pad(ind) + self.gap(st, "%s   [%s]" % (g, src_of(st)))

    def stmt(self, st, rest, env, ind, k):
        def cont(env1, ind1):
            return self.block(rest, env1, ind1, k)
        if isinstance(st, ast.Expr) and isinstance(st.value, ast.Constant) and isinstance(st.value.value, str):
            return cont(env, ind)                                      # doc string
        if isinstance(st, ast.Pass):
            return cont(env, ind)
        if isinstance(st, ast.Expr) and isinstance(st.value, ast.Call):
            c = st.value
            fn = ast.unparse(c.func)
            if fn == "print":
                return cont(env, ind)                                  # no effect on the result
            # child_lists[parent].append(x)
            if isinstance(c.func, ast.Attribute) and c.func.attr == "append" and isinstance(c.func.value, ast.Subscript) \
                    and isinstance(c.func.value.value, ast.Name) and len(c.args) == 1 and not c.keywords:
                d = c.func.value.value.id
                if env.vars.get(d) != "Adj":
                    raise Gap("append into " + str(env.vars.get(d)))

                def k1(key, tk, env1, ind1):
                    def k2(val, tv, env2, ind2):
                        v = env2.tmp(d)
                        return (pad(ind2) + "match dictAppend %s %s %s with\n" % (d, key, val) +
                                pad(ind2) + "| none =>\n" + self.raise_(K_KEY, env2, ind2 + 2, st) + "\n" +
                                pad(ind2) + "| some %s =>\n" % v +
                                pad(ind2 + 2) + "let %s := %s\n" % (d, v) + cont(env2.bind(d, "Adj"), ind2 + 2))
                    return self.expr(c.args[0], env1, ind1, k2)
                return self.expr(c.func.value.slice, env, ind, k1)
            # cell_graph.add_edge(u, v, weight=w)
            if isinstance(c.func, ast.Attribute) and isinstance(c.func.value, ast.Name) and env.vars.get(c.func.value.id) == "Graph":
                gname = c.func.value.id
                if c.func.attr == "add_edge" and len(c.args) == 2 and len(c.keywords) == 1 and c.keywords[0].arg == "weight":
                    def k1(u, tu, e1, n1):
                        def k2(v, tv, e2, n2):
                            def k3(w, tw, e3, n3):
                                if tw != "Rat":
                                    raise Gap("edge weight of type " + tw)
                                return (pad(n3) + "let %s := nx_add_edge %s %s %s %s\n" % (gname, gname, u, v, w) +
                                        cont(e3.bind(gname, "Graph"), n3))
                            return self.expr(c.keywords[0].value, e2, n2, k3)
                        return self.expr(c.args[1], e1, n1, k2)
                    return self.expr(c.args[0], env, ind, k1)
                if c.func.attr == "add_nodes_from" and len(c.args) == 1 and not c.keywords and isinstance(c.args[0], ast.GeneratorExp):
                    ge = c.args[0]
                    if len(ge.generators) != 1 or ge.generators[0].ifs or not isinstance(ge.generators[0].target, ast.Name):
                        raise Gap("generator shape")
                    x = ge.generators[0].target.id
                    if ast.unparse(ge.generators[0].iter) != "self.morphology.segments":
                        raise Gap("generator iterable")
                    elt = self.expr(ge.elt, env.bind(x, "Seg"), 0, lambda t, ty, e, n: t)
                    return (pad(ind) + "let %s := nx_add_nodes_from %s (self.segments.map (fun %s => %s))\n" % (gname, gname, x, elt) +
                            cont(env.bind(gname, "Graph"), ind))
            raise Gap("statement")
        if isinstance(st, ast.Assign):
            if len(st.targets) != 1:
                raise Gap("multiple assignment")
            t = st.targets[0]
            if isinstance(t, ast.Name):
                if isinstance(st.value, ast.Dict) and not st.value.keys:
                    ty = empty_dict_type(self.fn, t.id)
                    if ty is None:
                        raise Gap("empty dict of unknown type")
                    return pad(ind) + "let %s : %s := []\n" % (t.id, ty) + cont(env.bind(t.id, ty), ind)

                def k1(v, ty, env1, ind1):
                    if v == t.id:
                        return cont(env1, ind1)
                    return pad(ind1) + "let %s := %s\n" % (t.id, v) + cont(env1.bind(t.id, ty), ind1)
                return self.expr(st.value, env, ind, k1)
            if isinstance(t, ast.Tuple) and len(t.elts) == 2 and all(isinstance(e, ast.Name) for e in t.elts):
                # (target_dict, path_dict) = nx.single_source_dijkstra(...): the paths are not modelled
                def k1(v, ty, env1, ind1):
                    if ty != "SSD":
                        raise Gap("tuple assignment from " + ty)
                    return (pad(ind1) + "let %s := %s\n" % (t.elts[0].id, v) +
                            cont(env1.bind(t.elts[0].id, "RMap").bind(t.elts[1].id, "Unmodelled"), ind1))
                return self.expr(st.value, env, ind, k1)
            if isinstance(t, ast.Attribute) and isinstance(t.value, ast.Name) and t.value.id == "self" and t.attr in CACHE_ATTRS:
                def k1(v, ty, env1, ind1):
                    if "Opt" + ty != CACHE_ATTRS[t.attr]:
                        raise Gap("cache attribute %s set to a %s" % (t.attr, ty))
                    return (pad(ind1) + "let self := { self with %s := some %s }\n" % (t.attr, v) + cont(env1, ind1))
                return self.expr(st.value, env, ind, k1)
            if isinstance(t, ast.Subscript) and isinstance(t.value, ast.Name) and env.vars.get(t.value.id) == "RMap":
                d = t.value.id

                def k1(key, tk, env1, ind1):
                    def k2(v, tv, env2, ind2):
                        if tv != "Rat":
                            raise Gap("dict value of type " + tv)
                        return (pad(ind2) + "let %s := dictSet %s %s %s\n" % (d, d, key, v) + cont(env2.bind(d, "RMap"), ind2))
                    return self.expr(st.value, env1, ind1, k2)
                return self.expr(t.slice, env, ind, k1)
            if isinstance(t, ast.Subscript) and isinstance(t.value, ast.Name) and env.vars.get(t.value.id) == "Adj" \
                    and isinstance(st.value, ast.List) and not st.value.elts:
                d = t.value.id
                return self.expr(t.slice, env, ind, lambda key, tk, e, n: (
                    pad(n) + "let %s := dictSet %s %s []\n" % (d, d, key) + cont(e.bind(d, "Adj"), n)))
            raise Gap("assignment target")
        if isinstance(st, ast.Return):
            if st.value is None or env.loop is not None:
                raise Gap("return without value / inside a loop")

            def k1(v, ty, env1, ind1):
                if ty == "SSD":
                    ty = "RMap"          # `return nx.single_source_dijkstra(...)`: the distance dict is the modelled part
                if ty != self.rtype and not (ty == "Num" and self.rtype == "Nat"):
                    raise Gap("returns a %s, expected %s" % (ty, self.rtype))
                return pad(ind1) + "(self, some %s)" % v
            return self.expr(st.value, env, ind, k1)
        if isinstance(st, ast.Continue):
            if env.loop is None:
                raise Gap("continue outside a loop")
            return env.loop(env, ind)
        if isinstance(st, ast.Assert):
            if st.msg is not None:
                raise Gap("assert with message")
            return self.cond(st.test, env, ind, lambda c, e, n: (
                pad(n) + "if %s then\n" % c + cont(e, n + 2) + "\n" + pad(n) + "else\n" + self.raise_(K_ASSERT, e, n + 2, st)))
        if isinstance(st, ast.If):
            # `if x is None:` on an optional value
            t = st.test
            if (isinstance(t, ast.Compare) and len(t.ops) == 1 and isinstance(t.ops[0], ast.Is)
                    and isinstance(t.comparators[0], ast.Constant) and t.comparators[0].value is None):
                if st.orelse:
                    raise Gap("`is None` with else")
                if isinstance(t.left, ast.Name) and env.vars.get(t.left.id) in ("OptAdj", "OptGraph"):
                    x = t.left.id
                    inner = env.vars[x][3:]
                    if x not in self.assigned(st.body):
                        raise Gap("`if %s is None` does not assign %s" % (x, x))

                    def after(env1, ind1):
                        if env1.vars.get(x) != inner:
                            return pad(ind1) + self.gap(st, "%s is still optional after the None branch" % x)
                        return cont(env1, ind1)
                    return (pad(ind) + "match %s with\n" % x +
                            pad(ind) + "| none =>\n" + self.block(st.body, env, ind + 2, after) + "\n" +
                            pad(ind) + "| some %s =>\n" % x + cont(env.bind(x, inner), ind + 2))
                # `<seg>.parent is None`
                if isinstance(t.left, ast.Attribute) and t.left.attr == "parent" and isinstance(t.left.value, ast.Name) \
                        and env.vars.get(t.left.value.id) == "Seg":
                    s = t.left.value.id
                    v = env.tmp(s + "_parent")
                    env2 = env.copy(known=dict(env.known))
                    env2.known[ast.unparse(t.left)] = v
                    return (pad(ind) + "match %s.parent with\n" % s +
                            pad(ind) + "| none =>\n" + self.block(st.body, env, ind + 2, cont) + "\n" +
                            pad(ind) + "| some %s =>\n" % v + cont(env2, ind + 2))
                raise Gap("`is None` test on " + src_of(t.left))
            return self.cond(t, env, ind, lambda c, e, n: (
                pad(n) + "if %s then\n" % c + self.block(st.body, e, n + 2, cont) + "\n" +
                pad(n) + "else\n" + self.block(st.orelse, e, n + 2, cont)))
        if isinstance(st, ast.Try):
            if st.orelse or st.finalbody or len(st.handlers) != 1:
                raise Gap("try with else / finally / several handlers")
            h = st.handlers[0]
            if not isinstance(h.type, ast.Name) or h.name is not None or h.type.id in ("Exception", "BaseException"):
                raise Gap("handler is not `except <one specific class>:`")
            outer_handlers = env.handlers

            def handler(env_at_raise, ind1):
                # the handler runs with the variables as they are at the raise site, outside the try
                return self.block(h.body, env_at_raise.copy(handlers=outer_handlers), ind1,
                                  lambda e, n: cont(e.copy(handlers=outer_handlers), n))
            env_in = env.copy(handlers=outer_handlers + [({h.type.id}, handler)])
            return self.block(st.body, env_in, ind, lambda e, n: cont(e.copy(handlers=outer_handlers), n))
        if isinstance(st, ast.For):
            if st.orelse:
                raise Gap("for ... else")
            return self.for_(st, env, ind, cont)
        raise Gap("statement kind " + type(st).__name__)

    def for_(self, st, env, ind, cont):
        # the iterable
        it = st.iter
        if isinstance(it, ast.Call) and isinstance(it.func, ast.Attribute) and it.func.attr == "items" and not it.args \
                and isinstance(it.func.value, ast.Name) and env.vars.get(it.func.value.id) in ("Adj", "RMap"):
            dty = env.vars[it.func.value.id]
            if not (isinstance(st.target, ast.Tuple) and len(st.target.elts) == 2 and all(isinstance(e, ast.Name) for e in st.target.elts)):
                raise Gap("for target over .items()")
            a, b = [e.id for e in st.target.elts]
            xs, pat = it.func.value.id, "(%s, %s)" % (a, b)
            binds = [(a, "Nat"), (b, "List Nat" if dty == "Adj" else "Rat")]
        elif ast.unparse(it) == "self.morphology.segments" and isinstance(st.target, ast.Name):
            xs, pat, binds = "self.segments", st.target.id, [(st.target.id, "Seg")]
        elif isinstance(it, ast.Name) and env.vars.get(it.id) == "List Nat" and isinstance(st.target, ast.Name):
            xs, pat, binds = it.id, st.target.id, [(st.target.id, "Nat")]
        else:
            raise Gap("for over " + src_of(it))
        state = [v for v in self.assigned(st.body) if v in env.vars or v == "self"]
        for v in self.assigned(st.body):
            if v not in state and v in [b[0] for b in binds]:
                raise Gap("loop variable re-assigned")
        if not state:
            raise Gap("loop without effect")
        spat = state[0] if len(state) == 1 else "(" + ", ".join(state) + ")"

        def yield_(e, n):
            for v in state:
                if v != "self" and e.vars.get(v) != env.vars.get(v):
                    return pad(n) + self.gap(st, "loop changes the type of " + v)
            return pad(n) + "some %s" % spat
        envb = env.copy(handlers=env.handlers + ["barrier"], loop=yield_)
        for n_, t_ in binds:
            envb = envb.bind(n_, t_)
        body = self.block(st.body, envb, ind + 4, yield_)
        return (pad(ind) + "match forOpt %s %s (fun %s %s =>\n" % (xs, spat, spat, pat) + body + ") with\n" +
                pad(ind) + "| none => %s\n" % ("none" if env.loop is not None else "(self, none)") +
                pad(ind) + "| some %s =>\n" % spat + cont(env, ind + 2))

    # ------------------------------------------------------------------ a method
    def method(self, fn):
        name = fn.name
        # ONE canonical surface shape (translators/pynorm.py: every rewrite preserves behaviour for all inputs)
        fn = pynorm.normalise(fn)
        self.fn = fn
        self.rtype, params = METHODS[name]
        a = fn.args
        have = [x.arg for x in a.posonlyargs + a.args]
        if have != ["self"] + [p for p, _ in params] or a.vararg or a.kwarg or a.kwonlyargs or fn.decorator_list:
            self.gap(fn, "parameters %s, expected %s" % (have, ["self"] + [p for p, _ in params]))
        env = Env({"self": "CellS"})
        for p, t in params:
            env = env.bind(p, t)
        body = self.block(fn.body, env, 2, lambda e, n: pad(n) + self.gap(fn, "method falls off its end without return"))
        sig = "".join(" (%s : %s)" % (p, t) for p, t in params)
        return ("/-- `Cell.%s` -/\ndef %s (L : Morph → Nat → Option Rat) (self : CellS)%s : CellS × Option (%s) :=\n%s\n"
                % (name, name, sig, self.rtype, body))


def read_defaults(fn, gaps, label):
    """python default values of the parameters of a method -> {param: lean text}"""
    out = {}
    a = fn.args
    names = [x.arg for x in a.posonlyargs + a.args]
    for nm, d in zip(names[len(names) - len(a.defaults):], a.defaults):
        if isinstance(d, ast.Constant) and isinstance(d.value, int) and not isinstance(d.value, bool) and d.value >= 0:
            out[nm] = str(d.value)
        else:
            gaps.append("%s: default of %s.%s is not a natural-number literal" % (label, fn.name, nm))
    return out


def find_in_nml(tree, targets):
    out = {}
    for node in tree.body:
        if isinstance(node, ast.ClassDef) and node.name == "Cell":
            for it in node.body:
                if isinstance(it, ast.FunctionDef) and it.name in targets:
                    out.setdefault(it.name, []).append(it)
    return out


def find_in_helpers(tree, targets):
    out, problems = {}, []
    for node in ast.walk(tree):
        if not (isinstance(node, ast.Call) and isinstance(node.func, ast.Name) and node.func.id == "MethodSpec"):
            continue
        kw = {k.arg: k.value for k in node.keywords}
        src, cn = kw.get("source"), kw.get("class_names")
        if not (isinstance(src, ast.Constant) and isinstance(src.value, str)):
            continue
        classes = []
        if isinstance(cn, ast.Constant) and isinstance(cn.value, str):
            classes = [cn.value]
        elif isinstance(cn, (ast.List, ast.Tuple)):
            classes = [e.value for e in cn.elts if isinstance(e, ast.Constant)]
        if "Cell" not in classes:
            continue
        try:
            sub = ast.parse("class __Spec__:\n" + src.value + "\n    pass\n")
        except SyntaxError as e:
            problems.append("helper_methods.py: MethodSpec for %s does not parse: %s" % (classes, e))
            continue
        for it in sub.body[0].body:
            if isinstance(it, ast.FunctionDef) and it.name in targets:
                out.setdefault(it.name, []).append(it)
    return out, problems


def pin_hash(fn):
    """hash of the NORMALISED AST (pynorm: doc strings, alpha-renamed locals, `not a in b`, else-after-return,
    `.keys()` loops, ... mapped to one shape): a behaviour-preserving rewrite of these kinds keeps the pin, any other
    change moves it"""
    return pynorm.norm_hash(fn)


# normalised-AST hashes of the pinned methods that the hand model was written from
PINS = {
    "get_ordered_segments_in_groups": "1a8fec43b71cfb113a55735d",
    "get_segment_location_info": "9afc8eadd285fef07fa0491a",
}
# earlier shapes that are recognised (and named) but are no longer what the hand model follows
OLD_PINS = {
    "b850cb261e74d5eaee3d077f": "get_segment_location_info before fixes/C13-location-info-stops-at-root.patch "
                                "(the walk indexes the predecessor of the morphology root: IndexError)",
}

HEADER = """/-
GENERATED by translators/py2lean_morph.py from neuroml/nml/helper_methods.py and neuroml/nml/nml.py
(both files gave this same text). Regenerated on every `bin/check C13`; do not edit.
-/
import NmlVerif.Model.MorphBase
set_option linter.unusedVariables false

namespace NmlVerif.Gen.Morph
open NmlVerif.Morph

"""
FOOTER = "\nend NmlVerif.Gen.Morph\n"


def translate_repo(repo):
    gaps = []
    with open(os.path.join(repo, "neuroml", "nml", "helper_methods.py"), encoding="utf-8") as fh:
        htree = ast.parse(fh.read())
    with open(os.path.join(repo, "neuroml", "nml", "nml.py"), encoding="utf-8") as fh:
        ntree = ast.parse(fh.read())
    targets = TRANSLATED + PINNED
    hfun, problems = find_in_helpers(htree, targets)
    gaps += problems
    nfun = find_in_nml(ntree, targets)
    tables = (("helper_methods.py", hfun), ("nml.py", nfun))
    # defaults first (call sites need them)
    defaults = {}
    for label, table in tables:
        d = {}
        for key in TRANSLATED:
            if len(table.get(key, [])) == 1:
                d[key] = read_defaults(table[key][0], gaps, label)
        defaults[label] = d
    if defaults["helper_methods.py"] != defaults["nml.py"]:
        gaps.append("default argument values differ between helper_methods.py and nml.py")
    chunks, nunsup = [], 0
    for key in TRANSLATED:
        texts = {}
        for label, table in tables:
            nodes = table.get(key, [])
            if len(nodes) != 1:
                gaps.append("%s: %d definitions of Cell.%s (expected 1)" % (label, len(nodes), key))
                continue
            tr = Tr("%s: Cell.%s" % (label, key), defaults[label])
            tr.nunsup = nunsup
            text = tr.method(nodes[0])
            nunsup_after = tr.nunsup
            gaps += tr.gaps
            texts[label] = (text, nunsup_after)
        if len(texts) == 2 and texts["helper_methods.py"][0] != texts["nml.py"][0]:
            gaps.append("Cell.%s: helper_methods.py and nml.py translate differently" % key)
        if texts:
            text, nunsup = texts.get("nml.py") or list(texts.values())[0]
            for p, v in sorted(defaults["nml.py" if "nml.py" in texts else "helper_methods.py"].get(key, {}).items()):
                chunks.append("/-- default value of parameter `%s` of `Cell.%s` -/\ndef %s_default_%s : Nat := %s\n" % (p, key, key, p, v))
            chunks.append(text)
        else:
            rtype, params = METHODS[key]
            sig = "".join(" (%s : %s)" % (p, t) for p, t in params)
            nunsup += 1
            chunks.append("/-- `Cell.%s` was not found -/\ndef %s (L : Morph → Nat → Option Rat) (self : CellS)%s : CellS × Option (%s) :=\n  unsupported_%d\n"
                          % (key, key, sig, rtype, nunsup))
    # pinned methods
    for key in PINNED:
        hs = {}
        for label, table in tables:
            nodes = table.get(key, [])
            if len(nodes) != 1:
                gaps.append("%s: %d definitions of Cell.%s (expected 1)" % (label, len(nodes), key))
                continue
            hs[label] = pin_hash(nodes[0])
            if hs[label] != PINS[key]:
                if hs[label] in OLD_PINS:
                    gaps.append("%s: Cell.%s has an OLD shape: %s" % (label, key, OLD_PINS[hs[label]]))
                else:
                    gaps.append("%s: Cell.%s is not the text the hand model was written from (pinned AST hash %s, found %s)"
                                % (label, key, PINS[key], hs[label]))
        val = hs.get("nml.py") or hs.get("helper_methods.py") or "missing"
        chunks.append("/-- hash of the normalised AST of the pinned `Cell.%s` -/\ndef pin_%s : String := \"%s\"\n" % (key, key, val))
    return HEADER + "\n".join(chunks) + FOOTER, gaps


def regenerate(repo, out_path):
    text, gaps = translate_repo(repo)
    old = None
    if os.path.exists(out_path):
        with open(out_path, encoding="utf-8") as fh:
            old = fh.read()
    if old != text:
        os.makedirs(os.path.dirname(out_path), exist_ok=True)
        tmp = out_path + ".tmp%d" % os.getpid()
        with open(tmp, "w", encoding="utf-8") as fh:
            fh.write(text)
        os.replace(tmp, out_path)
    return gaps


if __name__ == "__main__":
    repo = sys.argv[1] if len(sys.argv) > 1 else os.environ.get("VERIF_REPO", "/repo")
    here = os.path.dirname(os.path.dirname(os.path.abspath(__file__)))
    out = sys.argv[2] if len(sys.argv) > 2 else os.path.join(here, "lean", "NmlVerif", "Gen", "Morph.lean")
    gs = regenerate(repo, out)
    for g in gs:
        print("GAP:", g)
    print("wrote", out, "gaps:", len(gs))
