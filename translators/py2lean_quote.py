"""py2lean_quote — translate the XML escaping functions and the integer / boolean / string codecs of
`neuroml/nml/nml.py` into Lean definitions over the vocabulary `NmlVerif.XmlText.Py` (properties C01 / C04).

Reads (Python `ast`; nothing is imported or executed) from the CURRENT working tree

    quote_xml, quote_xml_aux, quote_attrib                          (module level)
    CDATA_pattern_                                                  (module-level constant; must be the expected regex)
    GeneratedsSuper.gds_format_boolean / gds_parse_boolean / gds_format_integer / gds_parse_integer /
                    gds_format_string / gds_parse_string            (the class nml.py defines when the optional
                                                                     generatedssuper module is absent)

and writes `lean/NmlVerif/Gen/Quote.lean`.  The translation is compositional over a small statement language:

    x = E            -> let x := E          x += E       -> let x := x ++ E         return E -> E
    if C: return E   -> if C then E else <rest>
    if/elif/else whose branches assign ONE common variable (or raise)  -> let x := if ..   /  let x <- if .. (Option)
    for mo in <finditer result>: <assignments>   -> a foldl over the match list; the state is the tuple of the variables
                                                    assigned in the body that exist before the loop
    try: x = int(E) except (TypeError, ValueError) ...: raise_parse_error(...)   -> let x <- Py.int E

Expressions: names, string constants, `E.replace(<1-char const>, <const>)`, `'<pre>%s<post>' % E`, `E + E`, slices
`s[a:b]` / `s[a:]`, `mo.start()` / `mo.end()`, calls of the translated functions, `CDATA_pattern_.finditer(E)`,
`E.strip()`, `E.lower()`, `"%s" % <bool>`, `"%d" % int(<int>)`, the str-coercion idiom
`isinstance(x, BaseStrType_) and x or "%s" % x` (also written as a conditional expression).
Conditions: `'<c>' in E`, `not E`, `E in (<const>, ...)`.
ANYTHING else is a gap: reported (the check then counts the translator obligation as broken) and rendered as the
undefined identifier `unsupported_<n>` so that `Gen/Quote.lean` cannot build.
"""
import ast
import os
import sys

MODULE_FUNCS = ["quote_xml_aux", "quote_xml", "quote_attrib"]
METHODS = ["gds_format_string", "gds_parse_string", "gds_format_integer", "gds_parse_integer", "gds_format_boolean",
           "gds_parse_boolean", "gds_format_float", "gds_format_double"]
NONFINITE = {"inf": "INF", "-inf": "-INF", "nan": "NaN"}
CDATA_REGEX = r"<!\[CDATA\[.*?\]\]>"

# signature of each translated function: (parameter kept, its Lean type, result type, Option-valued?)
SIG = {
    "quote_xml_aux": ("inStr", "Str", "Str", False),
    "quote_xml": ("inStr", "Str", "Str", False),
    "quote_attrib": ("inStr", "Str", "Str", False),
    "gds_format_string": ("input_data", "Str", "Str", False),
    "gds_parse_string": ("input_data", "Str", "Str", False),
    "gds_format_integer": ("input_data", "Int", "Str", False),
    "gds_parse_integer": ("input_data", "Str", "Int", True),
    "gds_format_boolean": ("input_data", "Bool", "Str", False),
    "gds_parse_boolean": ("input_data", "Str", "Bool", True),
    # floats travel as what CPython's two formatting operations give for the value (Py.FloatLex: trusted, sampled)
    "gds_format_float": ("input_data", "Py.FloatLex", "Str", False),
    "gds_format_double": ("input_data", "Py.FloatLex", "Str", False),
}
IGNORED_PARAMS = {"self", "node", "input_name"}


def lchar(c):
    if c == "'":
        return "'\\''"
    if c == "\n":
        return "'\\n'"
    if c == "\t":
        return "'\\t'"
    if c == "\r":
        return "'\\r'"
    if c == "\\":
        return "'\\\\'"
    if 32 <= ord(c) < 127:
        return "'%s'" % c
    return "(Char.ofNat %d)" % ord(c)


def lstr(s):
    if s == "":
        return "([] : Str)"
    out = []
    for c in s:
        if c == '"':
            out.append('\\"')
        elif c == "\\":
            out.append("\\\\")
        elif c == "\n":
            out.append("\\n")
        elif c == "\t":
            out.append("\\t")
        elif c == "\r":
            out.append("\\r")
        elif 32 <= ord(c) < 127:
            out.append(c)
        else:
            out.append("\\u{%x}" % ord(c))
    return '"%s".toList' % "".join(out)


class Tr:
    def __init__(self, fname, types):
        self.fname = fname
        self.gaps = []
        self.types = dict(types)       # variable -> "Str" | "Nat" | "Int" | "Bool" | "Matches" | "Match"
        self.opt = SIG[fname][3]
        self.n = 0

    def gap(self, node, why):
        self.n += 1
        self.gaps.append("nml.py:%s %s: %s: %s" % (getattr(node, "lineno", "?"), self.fname, why,
                                                   ast.unparse(node)[:120] if isinstance(node, ast.AST) else ""))
        return "unsupported_%d" % self.n

    # ---- expressions
    def is_coerce(self, e):
        """isinstance(x, BaseStrType_) and x or '%s' % x   |   x if isinstance(x, BaseStrType_) [and x] else '%s' % x"""
        def isinst(t, x):
            return (isinstance(t, ast.Call) and getattr(t.func, "id", None) == "isinstance" and len(t.args) == 2
                    and isinstance(t.args[0], ast.Name) and t.args[0].id == x
                    and isinstance(t.args[1], ast.Name) and t.args[1].id == "BaseStrType_")

        def fmt(t, x):
            return (isinstance(t, ast.BinOp) and isinstance(t.op, ast.Mod) and isinstance(t.left, ast.Constant)
                    and t.left.value == "%s" and isinstance(t.right, ast.Name) and t.right.id == x)
        if isinstance(e, ast.BoolOp) and isinstance(e.op, ast.Or) and len(e.values) == 2:
            a, b = e.values
            if (isinstance(a, ast.BoolOp) and isinstance(a.op, ast.And) and len(a.values) == 2
                    and isinstance(a.values[1], ast.Name)):
                x = a.values[1].id
                if isinst(a.values[0], x) and fmt(b, x):
                    return x
        if isinstance(e, ast.IfExp) and isinstance(e.body, ast.Name):
            x = e.body.id
            t = e.test
            ok = isinst(t, x) or (isinstance(t, ast.BoolOp) and isinstance(t.op, ast.And) and len(t.values) == 2
                                  and isinst(t.values[0], x) and isinstance(t.values[1], ast.Name) and t.values[1].id == x)
            if ok and fmt(e.orelse, x):
                return x
        return None

    def typ(self, e):
        if isinstance(e, ast.Constant):
            if isinstance(e.value, bool):
                return "Bool"
            if isinstance(e.value, int):
                return "Nat"
            return "Str"
        if isinstance(e, ast.Name):
            return self.types.get(e.id, "Str")
        if (isinstance(e, ast.Call) and isinstance(e.func, ast.Attribute) and e.func.attr in ("start", "end")
                and isinstance(e.func.value, ast.Name) and self.types.get(e.func.value.id) == "Match"):
            return "Nat"
        if isinstance(e, ast.Call) and isinstance(e.func, ast.Attribute) and e.func.attr == "finditer":
            return "Matches"
        return "Str"

    def expr(self, e):
        x = self.is_coerce(e)
        if x is not None:
            if self.types.get(x, "Str") != "Str":
                return self.gap(e, "str coercion of a non-string")
            return "(Py.strCoerce %s)" % x
        if isinstance(e, ast.Name):
            if e.id in self.types:
                return e.id
            return self.gap(e, "unknown name")
        if isinstance(e, ast.Constant):
            if isinstance(e.value, bool):
                return "true" if e.value else "false"
            if isinstance(e.value, str):
                return lstr(e.value)
            if isinstance(e.value, int) and e.value >= 0:
                return "(%d : Nat)" % e.value
            return self.gap(e, "constant")
        if isinstance(e, ast.BinOp) and isinstance(e.op, ast.Add):
            return "(%s ++ %s)" % (self.expr(e.left), self.expr(e.right))
        if isinstance(e, ast.BinOp) and isinstance(e.op, ast.Mod) and isinstance(e.left, ast.Constant) and isinstance(e.left.value, str):
            f = e.left.value
            r = e.right
            if isinstance(r, ast.Tuple) and len(r.elts) == 1:
                r = r.elts[0]
            if f == "%d" and isinstance(r, ast.Call) and getattr(r.func, "id", None) == "int" and len(r.args) == 1 \
                    and self.typ(r.args[0]) == "Int":
                return "(Py.fmtD %s)" % self.expr(r.args[0])
            if f == "%s" and self.typ(r) == "Bool":
                return "(Py.strOfBool %s)" % self.expr(r)
            if f == "%s" and self.typ(r) == "Py.FloatLex" and isinstance(r, ast.Name):
                return "%s.repr" % r.id
            if (f == "%.15f" and isinstance(r, ast.Call) and getattr(r.func, "id", None) == "float" and len(r.args) == 1
                    and not r.keywords and isinstance(r.args[0], ast.Name) and self.typ(r.args[0]) == "Py.FloatLex"):
                return "%s.f15" % r.args[0].id
            if f.count("%") == 1 and f.count("%s") == 1 and self.typ(r) == "Str":
                pre, post = f.split("%s")
                return "(Py.wrap %s %s %s)" % (self.lit_list(pre), self.lit_list(post), self.expr(r))
            return self.gap(e, "% formatting")
        if isinstance(e, ast.Subscript) and isinstance(e.slice, ast.Slice) and e.slice.step is None and e.slice.lower is not None:
            lo = self.nat(e.slice.lower)
            if e.slice.upper is None:
                return "(Py.sliceFrom %s %s)" % (self.expr(e.value), lo)
            return "(Py.slice %s %s %s)" % (self.expr(e.value), lo, self.nat(e.slice.upper))
        if (isinstance(e, ast.Call) and isinstance(e.func, ast.Attribute) and e.func.attr in ("start", "end") and not e.args
                and isinstance(e.func.value, ast.Name) and self.types.get(e.func.value.id) == "Match"):
            return self.nat(e)
        if isinstance(e, ast.Call):
            f = e.func
            if isinstance(f, ast.Name) and f.id in MODULE_FUNCS and len(e.args) == 1 and not e.keywords:
                return "(%s %s)" % (f.id, self.expr(e.args[0]))
            if isinstance(f, ast.Attribute):
                if f.attr == "replace" and len(e.args) == 2 and not e.keywords and all(
                        isinstance(a, ast.Constant) and isinstance(a.value, str) for a in e.args):
                    if len(e.args[0].value) != 1:
                        return self.gap(e, "replace of a search string that is not one character")
                    return "(Py.replace1 %s %s %s)" % (lchar(e.args[0].value), lstr(e.args[1].value), self.expr(f.value))
                if f.attr == "strip" and not e.args and not e.keywords:
                    return "(Py.strip %s)" % self.expr(f.value)
                if (f.attr == "rstrip" and len(e.args) == 1 and not e.keywords and isinstance(e.args[0], ast.Constant)
                        and isinstance(e.args[0].value, str) and len(e.args[0].value) == 1):
                    return "(Py.rstrip1 %s %s)" % (lchar(e.args[0].value), self.expr(f.value))
                if (f.attr == "get" and isinstance(f.value, ast.Dict) and len(e.args) == 2 and not e.keywords
                        and all(isinstance(k, ast.Constant) and isinstance(k.value, str) for k in f.value.keys)
                        and all(isinstance(v, ast.Constant) and isinstance(v.value, str) for v in f.value.values)):
                    tbl = ", ".join("(%s, %s)" % (lstr(k.value), lstr(v.value)) for k, v in zip(f.value.keys, f.value.values))
                    self.dicts = getattr(self, "dicts", []) + [dict((k.value, v.value) for k, v in zip(f.value.keys, f.value.values))]
                    return "(Py.dictGet [%s] %s %s)" % (tbl, self.expr(e.args[0]), self.expr(e.args[1]))
                if f.attr == "lower" and not e.args and not e.keywords:
                    return "(Py.lower %s)" % self.expr(f.value)
                if (f.attr == "finditer" and isinstance(f.value, ast.Name) and f.value.id == "CDATA_pattern_"
                        and len(e.args) == 1 and not e.keywords):
                    return "(Py.cdataFinditer %s)" % self.expr(e.args[0])
        return self.gap(e, "expression")

    def lit_list(self, s):
        return "[" + ", ".join(lchar(c) for c in s) + "]"

    def nat(self, e):
        if isinstance(e, ast.Name) and self.types.get(e.id) == "Nat":
            return e.id
        if isinstance(e, ast.Constant) and isinstance(e.value, int) and e.value >= 0:
            return "%d" % e.value
        if (isinstance(e, ast.Call) and isinstance(e.func, ast.Attribute) and e.func.attr in ("start", "end") and not e.args
                and isinstance(e.func.value, ast.Name) and self.types.get(e.func.value.id) == "Match"):
            return "%s.%d" % (e.func.value.id, 1 if e.func.attr == "start" else 2)
        return self.gap(e, "index expression")

    def cond(self, e):
        if isinstance(e, ast.Compare) and len(e.ops) == 1 and isinstance(e.ops[0], ast.In):
            l, r = e.left, e.comparators[0]
            if isinstance(l, ast.Constant) and isinstance(l.value, str) and len(l.value) == 1:
                return "%s ∈ %s" % (lchar(l.value), self.expr(r))
            if isinstance(r, ast.Tuple) and r.elts and all(isinstance(x, ast.Constant) and isinstance(x.value, str) for x in r.elts):
                return " ∨ ".join("%s = %s" % (self.expr(l), lstr(x.value)) for x in r.elts)
        if isinstance(e, ast.UnaryOp) and isinstance(e.op, ast.Not) and isinstance(e.operand, ast.Name) \
                and self.types.get(e.operand.id) == "Str":
            return "%s = []" % e.operand.id
        if (isinstance(e, ast.Call) and isinstance(e.func, ast.Attribute) and e.func.attr == "endswith" and len(e.args) == 1
                and not e.keywords and isinstance(e.args[0], ast.Constant) and isinstance(e.args[0].value, str)
                and isinstance(e.func.value, ast.Name) and self.types.get(e.func.value.id) == "Str"):
            return "Py.endswith %s %s = true" % (self.lit_list(e.args[0].value), e.func.value.id)
        return self.gap(e, "condition")

    # ---- statements
    def assigned(self, stmts):
        out = []
        for st in stmts:
            if isinstance(st, ast.Assign) and len(st.targets) == 1 and isinstance(st.targets[0], ast.Name):
                out.append(st.targets[0].id)
            elif isinstance(st, ast.AugAssign) and isinstance(st.target, ast.Name):
                out.append(st.target.id)
            elif isinstance(st, ast.If):
                out += self.assigned(st.body) + self.assigned(st.orelse)
        return out

    def is_raise(self, st):
        return (isinstance(st, ast.Expr) and isinstance(st.value, ast.Call)
                and getattr(st.value.func, "id", None) == "raise_parse_error")

    def branch_value(self, stmts, var, ind):
        """a branch of an if that must end with `var` defined: -> Lean expression (Option-valued when self.opt)"""
        if len(stmts) == 1 and self.is_raise(stmts[0]):
            if not self.opt:
                return self.gap(stmts[0], "raise in a total function")
            return "none"
        if len(stmts) == 1 and isinstance(stmts[0], ast.If):
            return self.if_value(stmts[0], var, ind)
        body = self.block(stmts, ind + 2, final=var)
        return body

    def if_value(self, st, var, ind):
        pad = " " * ind
        a = self.branch_value(st.body, var, ind + 2)
        if not st.orelse:
            return self.gap(st, "if without else joining a variable")
        b = self.branch_value(st.orelse, var, ind + 2)
        return "(if %s then %s\n%selse %s)" % (self.cond(st.test), a, pad, b)

    def block(self, stmts, ind, final=None):
        """-> Lean term for the statement list; `final`: variable whose value ends the block (branch of a join; such
        blocks are rendered on one line, statements separated by `;`)"""
        pad = " " * ind
        sep = "; " if final is not None else "\n" + pad
        lines = []
        k = 0
        stmts = list(stmts)
        if stmts and isinstance(stmts[0], ast.Expr) and isinstance(stmts[0].value, ast.Constant) and isinstance(stmts[0].value.value, str):
            stmts = stmts[1:]                     # doc string
        while k < len(stmts):
            st = stmts[k]
            rest = stmts[k + 1:]
            if isinstance(st, ast.Return):
                if rest or final is not None or st.value is None:
                    lines.append(self.gap(st, "return in an unexpected position"))
                    break
                v = self.expr(st.value)
                lines.append("pure %s" % v if self.opt else v)
                return sep.join(lines)
            if isinstance(st, ast.Assign) and len(st.targets) == 1 and isinstance(st.targets[0], ast.Name):
                x = st.targets[0].id
                t = self.typ(st.value)
                v = self.expr(st.value)
                ann = " : %s" % t if isinstance(st.value, ast.Constant) and x not in self.types else ""
                self.types[x] = t
                lines.append("let %s%s := %s" % (x, ann, v))
                k += 1
                continue
            if isinstance(st, ast.AugAssign) and isinstance(st.op, ast.Add) and isinstance(st.target, ast.Name) \
                    and self.types.get(st.target.id) == "Str":
                lines.append("let %s := %s ++ %s" % (st.target.id, st.target.id, self.expr(st.value)))
                k += 1
                continue
            if isinstance(st, ast.If) and not st.orelse and len(st.body) == 1 and isinstance(st.body[0], ast.Return) \
                    and st.body[0].value is not None and final is None:
                v = self.expr(st.body[0].value)
                restb = self.block(rest, ind)
                lines.append("if %s then %s else\n%s%s" % (self.cond(st.test), "pure %s" % v if self.opt else v, pad, restb))
                return sep.join(lines)
            if (isinstance(st, ast.If) and not st.orelse and len(set(self.assigned(st.body))) == 1
                    and self.assigned(st.body)[0] in self.types and len(self.assigned(st.body)) == len(st.body)):
                x = self.assigned(st.body)[0]
                body = self.block(st.body, ind + 2, final=x)
                lines.append("let %s := (if %s then %s else %s)" % (x, self.cond(st.test), body, x))
                k += 1
                continue
            if isinstance(st, ast.If) and st.orelse:
                vs = sorted(set(self.assigned(st.body) + self.assigned(st.orelse)))
                if len(vs) == 1:
                    x = vs[0]
                    has_raise = any(self.is_raise(s) for s in ast.walk(st) if isinstance(s, ast.Expr))
                    # type of the joined variable: from the first assignment found
                    for s in ast.walk(st):
                        if isinstance(s, ast.Assign) and s.targets[0].id == x:
                            self.types.setdefault(x, self.typ(s.value))
                            if x not in self.types or isinstance(s.value, ast.Constant):
                                self.types[x] = self.typ(s.value)
                            break
                    saved_opt = self.opt
                    v = self.if_value(st, x, ind)
                    if has_raise:
                        lines.append("let %s ← %s" % (x, v))
                    else:
                        lines.append("let %s := %s" % (x, v))
                    self.opt = saved_opt
                    k += 1
                    continue
                lines.append(self.gap(st, "if/else assigning %s" % vs))
                break
            if isinstance(st, ast.Try) and len(st.body) == 1 and len(st.handlers) == 1 and not st.orelse and not st.finalbody:
                b, h = st.body[0], st.handlers[0]
                ok = (isinstance(b, ast.Assign) and isinstance(b.targets[0], ast.Name) and isinstance(b.value, ast.Call)
                      and getattr(b.value.func, "id", None) == "int" and len(b.value.args) == 1 and not b.value.keywords
                      and self.typ(b.value.args[0]) == "Str"
                      and isinstance(h.type, ast.Tuple) and sorted(getattr(x, "id", "?") for x in h.type.elts) == ["TypeError", "ValueError"]
                      and len(h.body) == 1 and self.is_raise(h.body[0]) and self.opt)
                if ok:
                    x = b.targets[0].id
                    self.types[x] = "Int"
                    lines.append("let %s ← Py.int %s" % (x, self.expr(b.value.args[0])))
                    k += 1
                    continue
                lines.append(self.gap(st, "try statement"))
                break
            if isinstance(st, ast.For) and not st.orelse and isinstance(st.target, ast.Name) and self.typ(st.iter) == "Matches" \
                    and (isinstance(st.iter, ast.Call) or (isinstance(st.iter, ast.Name) and st.iter.id in self.types)):
                mo = st.target.id
                iter_src = self.expr(st.iter)
                state = [v for v in dict.fromkeys(self.assigned(st.body)) if v in self.types]
                if not state or any(self.types[v] not in ("Str", "Nat") for v in state):
                    lines.append(self.gap(st, "loop state"))
                    break
                sty = " × ".join(self.types[v] for v in state)
                proj = (lambda i: "st.%d" % (i + 1)) if len(state) > 1 else (lambda i: "st")
                inner = Tr(self.fname, self.types)
                inner.types[mo] = "Match"
                inner.opt = False
                body_lines = ["let %s := %s" % (v, proj(i)) for i, v in enumerate(state)]
                body = inner.block(st.body, ind + 6, final="(" + ", ".join(state) + ")")
                self.gaps += inner.gaps
                lines.append("let st := %s.foldl (fun (st : %s) (%s : Nat × Nat) =>\n%s    %s;\n%s    %s) (%s)" % (
                    iter_src, sty, mo, pad, "; ".join(body_lines), pad, body, ", ".join(state)))
                for i, v in enumerate(state):
                    lines.append("let %s := %s" % (v, proj(i)))
                k += 1
                continue
            lines.append(self.gap(st, "statement"))
            break
        if final is not None:
            if self.opt and not final.startswith("("):
                lines.append("pure %s" % final)
            else:
                lines.append(final)
            return "(" + sep.join(lines) + ")"
        return sep.join(lines)


# ---------------------------------------------------------------------------------------------------------------------
# Normalisation: equivalent surface shapes of one statement are mapped to ONE canonical shape before translation, so that
# behaviour-preserving rewrites of the source give byte-identical Lean definitions.  Every rule is semantics-preserving
# for ALL inputs (reason given at the rule); whatever is not recognised is left alone and refused by the translator.
def _is_str_const(n):
    return isinstance(n, ast.Constant) and isinstance(n.value, str)


def _fmt_of_joinedstr(n):
    """f'pre{x}post' -> ('pre%spost', x): an f-string whose only replacement field has no conversion and no format spec
    formats x with format(x, '') = str(x) for a str x -- what '%s' % x gives (x is typed Str by the translator; any other
    type is refused there).  Literal parts containing '%' would need escaping: not normalised."""
    fields = [v for v in n.values if isinstance(v, ast.FormattedValue)]
    if len(fields) != 1 or fields[0].conversion != -1 or fields[0].format_spec is not None:
        return None
    lits = []
    for v in n.values:
        if isinstance(v, ast.FormattedValue):
            lits.append("%s")
        elif _is_str_const(v) and "%" not in v.value:
            lits.append(v.value)
        else:
            return None
    return "".join(lits), fields[0].value


class _Expr(ast.NodeTransformer):
    """expression-level rules"""

    def visit_Assign(self, n):
        # x = x + E  ->  x += E   (x a str: immutable, so rebinding and in-place addition coincide; `+=` on anything but a
        # Str-typed variable is refused by the translator)
        if (len(n.targets) == 1 and isinstance(n.targets[0], ast.Name) and isinstance(n.value, ast.BinOp)
                and isinstance(n.value.op, ast.Add) and isinstance(n.value.left, ast.Name)
                and n.value.left.id == n.targets[0].id):
            rhs = self.visit(n.value.right)
            return ast.copy_location(ast.AugAssign(ast.Name(n.targets[0].id, ast.Store()), ast.Add(), rhs), n)
        self.generic_visit(n)
        return n

    def visit_JoinedStr(self, n):
        self.generic_visit(n)
        r = _fmt_of_joinedstr(n)
        if r is None:
            return n
        return ast.copy_location(ast.BinOp(ast.Constant(r[0]), ast.Mod(), r[1]), n)

    def visit_Call(self, n):
        self.generic_visit(n)
        # 'pre{}post'.format(x) = 'pre%spost' % x for a str x (one anonymous field, no other braces / percent signs)
        if (isinstance(n.func, ast.Attribute) and n.func.attr == "format" and _is_str_const(n.func.value)
                and len(n.args) == 1 and not n.keywords):
            f = n.func.value.value
            if f.count("{}") == 1 and "%" not in f and "{" not in f.replace("{}", "") and "}" not in f.replace("{}", ""):
                return ast.copy_location(ast.BinOp(ast.Constant(f.replace("{}", "%s")), ast.Mod(), n.args[0]), n)
        return n

    def visit_BinOp(self, n):
        # 'pre' + x + 'post'  (x a name)  =  'pre%spost' % x  for a str x: concatenation of the same three pieces.  The whole
        # chain of additions is looked at before its parts are rewritten.
        if isinstance(n.op, ast.Add):
            parts = []

            def flat(e):
                if isinstance(e, ast.BinOp) and isinstance(e.op, ast.Add):
                    flat(e.left)
                    flat(e.right)
                else:
                    parts.append(e)
            flat(n)
            dyn = [q for q in parts if not _is_str_const(q)]
            if (len(dyn) == 1 and len(parts) >= 2 and isinstance(dyn[0], ast.Name)
                    and all("%" not in q.value for q in parts if _is_str_const(q))):
                f = "".join("%s" if q is dyn[0] else q.value for q in parts)
                return ast.copy_location(ast.BinOp(ast.Constant(f), ast.Mod(), dyn[0]), n)
        self.generic_visit(n)
        return n

    def visit_UnaryOp(self, n):
        self.generic_visit(n)
        # not (a in b) = a not in b ; not (a not in b) = a in b ; not (a == b) = a != b ; not not x is NOT x (only truthiness)
        if isinstance(n.op, ast.Not) and isinstance(n.operand, ast.Compare) and len(n.operand.ops) == 1:
            flip = {ast.In: ast.NotIn, ast.NotIn: ast.In, ast.Eq: ast.NotEq, ast.NotEq: ast.Eq, ast.Is: ast.IsNot, ast.IsNot: ast.Is}
            t = type(n.operand.ops[0])
            if t in flip and t in (ast.In, ast.NotIn, ast.Is, ast.IsNot):      # ==/!= only for str operands: left alone
                return ast.copy_location(ast.Compare(n.operand.left, [flip[t]()], n.operand.comparators), n)
        return n


def _ends_flow(stmts):
    return bool(stmts) and isinstance(stmts[-1], (ast.Return, ast.Raise, ast.Continue, ast.Break))


def _negated(test):
    if isinstance(test, ast.UnaryOp) and isinstance(test.op, ast.Not):
        return test.operand
    if isinstance(test, ast.Compare) and len(test.ops) == 1 and isinstance(test.ops[0], ast.NotIn):
        return ast.Compare(test.left, [ast.In()], test.comparators)
    return None


def _uses(name, nodes):
    return sum(1 for n in nodes for x in ast.walk(n) if isinstance(x, ast.Name) and x.id == name)


def _norm_block(stmts, is_coerce):
    out = []
    for st in stmts:
        # x = A if c else B   ->   if c: x = A  else: x = B     (same evaluation: c first, then exactly one of A / B);
        # the str-coercion idiom written as a conditional expression is an expression-level idiom and is kept
        if (isinstance(st, ast.Assign) and len(st.targets) == 1 and isinstance(st.targets[0], ast.Name)
                and isinstance(st.value, ast.IfExp) and is_coerce(st.value) is None):
            t = st.targets[0]
            st = ast.copy_location(ast.If(st.value.test, [ast.copy_location(ast.Assign([t], st.value.body), st)],
                                          [ast.copy_location(ast.Assign([t], st.value.orelse), st)]), st)
        if isinstance(st, ast.If):
            st.body = _norm_block(st.body, is_coerce)
            st.orelse = _norm_block(st.orelse, is_coerce)
            # else: after a branch that always returns / raises / continues / breaks  ->  no else (the else part runs
            # exactly when the test is false, which is when control reaches the statement after the if)
            if st.orelse and _ends_flow(st.body):
                tail = st.orelse
                st = ast.copy_location(ast.If(st.test, st.body, []), st)
                out.append(st)
                out.extend(tail)
                continue
            # if not C: A else: B  ->  if C: B else: A     (both branches present: the same branch runs for every input)
            neg = _negated(st.test)
            if neg is not None and st.orelse:
                st = ast.copy_location(ast.If(neg, st.orelse, st.body), st)
        elif isinstance(st, (ast.For, ast.While)):
            st.body = _norm_block(st.body, is_coerce)
        elif isinstance(st, ast.Try):
            st.body = _norm_block(st.body, is_coerce)
            for h in st.handlers:
                h.body = _norm_block(h.body, is_coerce)
        out.append(st)
    # a single-use local inlined into the statement that follows its assignment:
    #   x = E; return x      ->  return E            (x is dead after the return)
    #   x = E; for v in x:   ->  for v in E:         (E is evaluated once, immediately before the loop, either way; x is not
    #                                                 used in the loop body or afterwards)
    k = 0
    res = []
    while k < len(out):
        st = out[k]
        nxt = out[k + 1] if k + 1 < len(out) else None
        if isinstance(st, ast.Assign) and len(st.targets) == 1 and isinstance(st.targets[0], ast.Name) and nxt is not None:
            x = st.targets[0].id
            if isinstance(nxt, ast.Return) and isinstance(nxt.value, ast.Name) and nxt.value.id == x:
                res.append(ast.copy_location(ast.Return(st.value), nxt))
                k += 2
                continue
            if (isinstance(nxt, ast.For) and isinstance(nxt.iter, ast.Name) and nxt.iter.id == x
                    and _uses(x, nxt.body + nxt.orelse + out[k + 2:]) == 0):
                nxt.iter = st.value
                res.append(nxt)
                k += 2
                continue
        res.append(st)
        k += 1
    return res


class _Rename(ast.NodeTransformer):
    def __init__(self, m):
        self.m = m

    def visit_Name(self, n):
        if n.id in self.m:
            return ast.copy_location(ast.Name(self.m[n.id], n.ctx), n)
        return n


def normalise(fn, keep):
    """-> normalised copy of the function body.  Last step: alpha renaming of the LOCAL variables (every name the body
    binds by assignment or as a loop variable, except the parameters) to x1, x2, ... in order of first binding -- locals are
    invisible outside the function, so their names carry no behaviour."""
    import copy
    fn = copy.deepcopy(fn)
    fn = ast.fix_missing_locations(_Expr().visit(fn))
    probe = Tr("quote_xml", {})
    body = _norm_block(fn.body, probe.is_coerce)
    order = []
    params = {a.arg for a in fn.args.args}

    def bind(nodes):
        for st in nodes:
            for x in ast.walk(st):
                if isinstance(x, ast.Name) and isinstance(x.ctx, ast.Store) and x.id not in params and x.id not in order:
                    order.append(x.id)
    # first-binding order = source order of Store contexts (ast.walk is breadth-first: walk statements one by one)
    def walk(nodes):
        for st in nodes:
            if isinstance(st, (ast.Assign, ast.AugAssign)):
                bind([st])
            elif isinstance(st, ast.For):
                bind([st.target])
                walk(st.body)
            elif isinstance(st, ast.If):
                walk(st.body)
                walk(st.orelse)
            elif isinstance(st, ast.Try):
                walk(st.body)
                for h in st.handlers:
                    walk(h.body)
            elif isinstance(st, ast.While):
                walk(st.body)
    walk(body)
    m = {v: "x%d" % (i + 1) for i, v in enumerate(order)}
    fn.body = [ast.fix_missing_locations(_Rename(m).visit(st)) for st in body]
    return fn


def find_functions(tree):
    fns = {}
    for n in tree.body:
        if isinstance(n, ast.FunctionDef) and n.name in MODULE_FUNCS:
            fns[n.name] = n
    gs = [n for n in ast.walk(tree) if isinstance(n, ast.ClassDef) and n.name == "GeneratedsSuper"]
    for g in gs[:1]:
        for b in g.body:
            if isinstance(b, ast.FunctionDef) and b.name in METHODS:
                fns[b.name] = b
    return fns, len(gs)


def cdata_pattern_ok(tree):
    for n in tree.body:
        if isinstance(n, ast.Assign) and len(n.targets) == 1 and getattr(n.targets[0], "id", None) == "CDATA_pattern_":
            v = n.value
            return (isinstance(v, ast.Call) and ast.unparse(v.func) == "re_.compile" and len(v.args) == 2 and not v.keywords
                    and isinstance(v.args[0], ast.Constant) and v.args[0].value == CDATA_REGEX
                    and ast.unparse(v.args[1]) == "re_.DOTALL")
    return False


def translate(repo):
    path = os.path.join(repo, "neuroml", "nml", "nml.py")
    tree = ast.parse(open(path).read())
    fns, n_super = find_functions(tree)
    gaps, defs = [], []
    shapes = {}
    if n_super != 1:
        gaps.append("nml.py: expected exactly one class GeneratedsSuper, found %d" % n_super)
    if not cdata_pattern_ok(tree):
        gaps.append("nml.py: CDATA_pattern_ is not re_.compile(r'%s', re_.DOTALL)" % CDATA_REGEX)
    for name in MODULE_FUNCS + METHODS:
        fn = fns.get(name)
        if fn is None:
            gaps.append("nml.py: function %s not found" % name)
            defs.append("def %s : Unit := function_not_found" % name)
            continue
        par, pty, rty, opt = SIG[name]
        params = [a.arg for a in fn.args.args]
        others = [p for p in params if p != par]
        if par not in params or any(p not in IGNORED_PARAMS for p in others) or fn.args.vararg or fn.args.kwarg or fn.args.kwonlyargs:
            gaps.append("nml.py:%d %s: unexpected parameter list %s" % (fn.lineno, name, params))
        tr = Tr(name, {par: pty})
        body = tr.block(normalise(fn, par).body, 2)
        gaps += tr.gaps
        if name in ("gds_format_float", "gds_format_double"):
            ds = getattr(tr, "dicts", [])
            if not ds:
                shapes[name] = "python-spelling"          # inf / -inf / nan as CPython prints them
            elif ds == [NONFINITE]:
                shapes[name] = "xsd-spelling"             # INF / -INF / NaN
            else:
                shapes[name] = "other"
                gaps.append("nml.py:%d %s: unexpected spelling table %r" % (fn.lineno, name, ds))
        head = "def %s (%s : %s) : %s :=%s" % (name, par, pty, ("Option %s" % rty) if opt else rty, " do" if opt else "")
        defs.append("/-- translated from `%s` in nml.py -/\n%s\n  %s" % (name, head, body))
    if len(set(shapes.values())) > 1:
        gaps.append("nml.py: gds_format_float and gds_format_double spell non-finite values differently: %r" % (shapes,))
    xsd = bool(shapes) and all(v == "xsd-spelling" for v in shapes.values())
    defs.append("/-- non-finite values are written INF / -INF / NaN (true) or as CPython prints them, inf / -inf / nan (false) -/\n"
                "def nonfiniteXsd : Bool := %s" % ("true" if xsd else "false"))
    src = ("import NmlVerif.Model.XmlText\n"
           "/-! GENERATED by translators/py2lean_quote.py from neuroml/nml/nml.py — do not edit. -/\n"
           "namespace NmlVerif.Gen.Quote\nopen NmlVerif.XmlText\n\n%s\n\nend NmlVerif.Gen.Quote\n" % "\n\n".join(defs))
    translate.shapes = shapes
    return src, gaps


def regenerate(repo, lean_dir, info=None):
    src, gaps = translate(repo)
    if info is not None:
        info["float_format_shape"] = dict(translate.shapes)
    out = os.path.join(lean_dir, "NmlVerif", "Gen", "Quote.lean")
    old = open(out).read() if os.path.exists(out) else None
    if old != src:
        with open(out, "w") as fh:
            fh.write(src)
    return gaps


if __name__ == "__main__":
    repo = sys.argv[1] if len(sys.argv) > 1 else "/repo"
    lean = os.path.join(os.path.dirname(os.path.dirname(os.path.abspath(__file__))), "lean")
    g = regenerate(repo, lean)
    print(len(g), "gaps")
    for x in g:
        print(x)
