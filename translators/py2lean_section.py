"""py2lean_section — translate `Cell.create_unbranched_segment_group_branches` and the private `Cell.__sectionise`
into terms of the imperative vocabulary of `lean/NmlVerif/Model/SectionIR.lean` (property C16).

Reads (Python `ast`; nothing is imported or executed) from the CURRENT working tree of the repository

    neuroml/nml/helper_methods.py   (method sources are string constants inside MethodSpec(source=...))
    neuroml/nml/nml.py              (the generated bindings that ship a copy of every helper)

and writes `lean/NmlVerif/Gen/Section.lean`:

    def sectionise : Cmd                                  -- body of `__sectionise`
    def create (oi) : Cmd                                 -- body of `create_unbranched_segment_group_branches`
    def sectioniseParams / createParams : List String     -- their parameter names

What is translated compositionally (taken from the source, whatever it is): the ORDER of statements and the NESTING of
`while` / `if` (without else) / `try ... except KeyError` / `for child in [reversed(]children[)]` blocks.
What is recognised by exact match of the statement's AST (comments, blank lines and doc strings do not matter,
anything else does): the simple statements and the conditions, each of which is one named primitive of
`SectionIR.lean` (the table `STATEMENTS` / `CONDITIONS` below gives the Python text of each).
Everything else is a GAP: reported, and rendered as `unsupported` so that the equivalence proof in
`Props/C16Gen.lean` cannot go through.  Both files must give the same translation.

Robustness round: before the match, every function goes through a NORMALISATION (`normalise_function`, section
"normal form" below) that maps equivalent surface shapes of the same statement to one shape, and the match itself is
made MODULO A BIJECTIVE RENAMING OF THE FUNCTION'S LOCAL VARIABLES (`Unifier`).  Every rewrite is semantics-preserving
for all inputs (the reason is given at each rule); what no rule recognises is still refused.  The vocabulary goes
through the same normal form, so the generated Lean text does not depend on which of the equivalent shapes the source
uses.
"""
import ast
import os
import re
import sys

TARGETS = ["create_unbranched_segment_group_branches", "__sectionise"]

# primitive name -> the one Python statement it stands for
STATEMENTS = {
    "initTodo": "todo = [(root_segment_id, seg_group)]",
    "popTodo": "root_segment_id, seg_group = todo.pop()",
    "getSegmentRoot": "seg = self.get_segment(root_segment_id)",
    "setProximalActual": "seg.proximal = self.get_actual_proximal(seg.id)",
    "groupNameCountMinus1": 'group_name = f"seg_group_{len(self.morphology.segment_groups) - 1}_seg_{seg.id}"',
    "numSegGroups": "num_seg_groups = len(self.morphology.segment_groups)",
    "groupNameNum": 'group_name = f"seg_group_{num_seg_groups}_seg_{seg.id}"',
    "addUnbranchedSegGroup": "seg_group = self.add_unbranched_segment_group(group_name)",
    "addUnbranchedNewSegGroup": "new_seg_group = self.add_unbranched_segment_group(group_name)",
    "lookupChildren": "children = morph_tree[root_segment_id]",
    "addMember": 'seg_group.add("Member", segments=root_segment_id)',
    "descend": "root_segment_id = children[0]",
    "appendTodoChildNone": "todo.append((child, None))",
    "getCachedTree": 'morph_tree = getattr(self, "adjacency_list", None)',
    "computeTree": "morph_tree = self.get_segment_adjacency_list()",
    "reorderGroupsP": "self.reorder_segment_groups()",
    "(optimiseGroupsP oi)": "self.optimise_segment_groups()",
    "(callSectionise sectionise)": "self.__sectionise(root_segment_id, new_seg_group, morph_tree)",
}
CONDITIONS = {
    "todoNonEmpty": "todo",
    "segGroupIsNone": "seg_group is None",
    "oneChild": "len(children) == 1",
    "manyChildren": "len(children) > 1",
    "morphTreeIsNone": "morph_tree is None",
    "segProxNoneAndParent": "seg.proximal is None and seg.parent is not None",
    "reorderFlag": "reorder_segment_groups",
    "optimiseFlag": "optimise_segment_groups",
}
ITERABLES = {
    "reversedChildren": "reversed(children)",
    "childrenInOrder": "children",
}
PARAMS = {
    "create_unbranched_segment_group_branches": ["self", "root_segment_id", "use_convention", "reorder_segment_groups",
                                                 "optimise_segment_groups"],
    "__sectionise": ["self", "root_segment_id", "seg_group", "morph_tree"],
}


def _dump(node):
    return ast.dump(node, include_attributes=False)


# what the canonical (today's) functions bind besides their parameters; a source local is matched to one of these
CANON_LOCALS = {
    "create_unbranched_segment_group_branches": ["morph_tree", "seg", "num_seg_groups", "group_name", "new_seg_group"],
    "__sectionise": ["todo", "seg", "group_name", "children", "child"],
}
ALL_VARS = set(sum(CANON_LOCALS.values(), [])) | set(sum(PARAMS.values(), []))
# runs of consecutive canonical statements whose single-use locals the normal form inlines (see `_inline_temps`):
# the normal form of the run is ONE statement, which stands for all primitives of the run, in this order
CHAINS = [
    ["numSegGroups", "groupNameNum", "addUnbranchedNewSegGroup", "(callSectionise sectionise)"],
    ["groupNameCountMinus1", "addUnbranchedSegGroup"],
]
RUNS = [c[i:j] for c in CHAINS for i in range(len(c)) for j in range(i + 2, len(c) + 1)]

# ------------------------------------------------------------------------------------------------ normal form
#
# Every rule rewrites a function into one with the same behaviour for ALL inputs (same effects in the same order,
# same value / exception), under the assumptions stated at the rule.  Rules only ever fire on the shapes they name;
# anything else is left alone and is then refused by the vocabulary match.

_MIRROR = {ast.Eq: ast.Eq, ast.NotEq: ast.NotEq, ast.Lt: ast.Gt, ast.Gt: ast.Lt, ast.LtE: ast.GtE, ast.GtE: ast.LtE}
_NEGATE_ALWAYS = {ast.In: ast.NotIn, ast.NotIn: ast.In, ast.Is: ast.IsNot, ast.IsNot: ast.Is}
_NEGATE_INT = {ast.Eq: ast.NotEq, ast.NotEq: ast.Eq, ast.Lt: ast.GtE, ast.GtE: ast.Lt, ast.Gt: ast.LtE, ast.LtE: ast.Gt}


def _is_len_call(e):
    """`len(<expr>)`: the builtin always returns an `int` (a local named `len` is refused by the matcher later)"""
    return (isinstance(e, ast.Call) and isinstance(e.func, ast.Name) and e.func.id == "len" and len(e.args) == 1
            and not e.keywords and not isinstance(e.args[0], ast.Starred))


def _is_int_const(e):
    return isinstance(e, ast.Constant) and type(e.value) is int


def _fv(e):
    return ast.FormattedValue(value=e, conversion=-1, format_spec=None)


def _joined(parts):
    """parts: str | expression -> the JoinedStr `ast.parse` gives for the f-string (adjacent text merged, no empty text)"""
    vals = []
    for p in parts:
        if isinstance(p, str):
            if not p:
                continue
            if vals and isinstance(vals[-1], ast.Constant):
                vals[-1] = ast.Constant(value=vals[-1].value + p)
            else:
                vals.append(ast.Constant(value=p))
        else:
            vals.append(p)
    return ast.JoinedStr(values=vals)


class _ExprNorm(ast.NodeTransformer):
    """expression-level rules (bottom-up)"""

    def visit_UnaryOp(self, node):
        self.generic_visit(node)
        c = node.operand
        if isinstance(node.op, ast.Not) and isinstance(c, ast.Compare) and len(c.ops) == 1:
            op = type(c.ops[0])
            # `not a in b` = `a not in b`, `not a is b` = `a is not b`: that is how Python DEFINES `not in` / `is not`
            if op in _NEGATE_ALWAYS:
                return ast.Compare(left=c.left, ops=[_NEGATE_ALWAYS[op]()], comparators=c.comparators)
            # `not len(x) == K` = `len(x) != K` (and <, >, ...): both operands are `int`s (len() result, int literal),
            # for which the comparison operators are each other's exact negations.  Not done for arbitrary operands
            # (a class may define `__eq__` and `__ne__` inconsistently).
            if op in _NEGATE_INT and _is_len_call(c.left) and _is_int_const(c.comparators[0]):
                return self.visit_Compare(ast.Compare(left=c.left, ops=[_NEGATE_INT[op]()], comparators=c.comparators),
                                          again=True)
        return node

    def visit_Compare(self, node, again=False):
        if not again:
            self.generic_visit(node)
        if len(node.ops) != 1:
            return node
        left, op, right = node.left, type(node.ops[0]), node.comparators[0]
        # `K op len(x)` = `len(x) op' K`: two ints, the mirrored operator gives the same truth value
        if _is_int_const(left) and _is_len_call(right) and op in _MIRROR:
            left, op, right = right, _MIRROR[op], left
        if _is_len_call(left) and _is_int_const(right):
            k = right.value
            # integers: n >= k  =  n > k-1;  n < k  =  n <= k-1 is not needed.  len() >= 0:  n != 0  =  n > 0
            if op is ast.GtE:
                op, k = ast.Gt, k - 1
            elif op is ast.NotEq and k == 0:
                op = ast.Gt
            elif op is ast.Lt:
                op, k = ast.LtE, k - 1
            if k < 0:
                return node
            return ast.Compare(left=left, ops=[op()], comparators=[ast.Constant(value=k)])
        return node

    # --- the three other spellings of an f-string whose fields have no conversion and no format spec
    def visit_BinOp(self, node):
        self.generic_visit(node)
        # "..%s.." % (a, b): every spec is a plain %s, arguments given as a tuple DISPLAY (so the count is known and a
        # tuple-valued single argument cannot be mistaken for the argument list).  `%s` is str(x), an f-string field is
        # format(x, "") -- equal for every type that does not override __format__ (int, str, float, bool, None, numpy
        # scalars; the values here are len() results and segment ids).  ASSUMPTION recorded in the notes.
        if isinstance(node.op, ast.Mod) and isinstance(node.left, ast.Constant) and isinstance(node.left.value, str):
            pieces = re.split(r"(%[%s])", node.left.value)
            texts, specs = pieces[0::2], pieces[1::2]
            if any("%" in t for t in texts):
                return node                                    # some other conversion: not touched
            if isinstance(node.right, ast.Tuple) and not any(isinstance(e, ast.Starred) for e in node.right.elts):
                args = list(node.right.elts)
            elif _is_len_call(node.right) or _is_int_const(node.right):
                args = [node.right]
            else:
                return node
            if sum(1 for p in specs if p == "%s") != len(args):
                return node
            parts, it = [], iter(args)
            for k, p in enumerate(pieces):
                parts.append(p if k % 2 == 0 else ("%" if p == "%%" else _fv(next(it))))
            return _joined(parts)
        # "seg_group_" + str(n) + "_seg_" + str(i): text pieces and str(x) calls only (same remark on str / format)
        if isinstance(node.op, ast.Add):
            leaves = []

            def flat(e):
                if isinstance(e, ast.BinOp) and isinstance(e.op, ast.Add):
                    flat(e.left)
                    flat(e.right)
                else:
                    leaves.append(e)
            flat(node)
            parts = []
            for e in leaves:
                if isinstance(e, ast.Constant) and isinstance(e.value, str):
                    parts.append(e.value)
                elif (isinstance(e, ast.Call) and isinstance(e.func, ast.Name) and e.func.id == "str" and len(e.args) == 1
                      and not e.keywords and not isinstance(e.args[0], ast.Starred)):
                    parts.append(_fv(e.args[0]))
                elif isinstance(e, ast.JoinedStr):
                    parts.extend(v.value if isinstance(v, ast.Constant) else v for v in e.values)
                else:
                    return node
            if any(not isinstance(p, str) for p in parts):
                return _joined(parts)
        return node

    def visit_Call(self, node):
        self.generic_visit(node)
        # "..{}..".format(a, b) with automatic (or explicit positional, each used once in order) empty fields: str.format
        # calls format(arg, "") for each field, exactly what the f-string does, arguments evaluated left to right
        f = node.func
        if (isinstance(f, ast.Attribute) and f.attr == "format" and isinstance(f.value, ast.Constant)
                and isinstance(f.value.value, str) and not node.keywords
                and not any(isinstance(a, ast.Starred) for a in node.args)):
            import string
            try:
                fields = list(string.Formatter().parse(f.value.value))
            except ValueError:
                return node
            parts, k = [], 0
            for text, name, spec, conv in fields:
                parts.append(text)
                if name is None:
                    continue
                if spec or conv or name not in ("", str(k)) or k >= len(node.args):
                    return node
                parts.append(_fv(node.args[k]))
                k += 1
            if k != len(node.args):
                return node
            return _joined(parts)
        return node

    def visit_JoinedStr(self, node):
        self.generic_visit(node)
        return _joined([v.value if isinstance(v, ast.Constant) and isinstance(v.value, str) else v for v in node.values])


def _names(node, ident):
    return [n for n in ast.walk(node) if isinstance(n, ast.Name) and n.id == ident]


def _always_leaves(stmts):
    """control never falls out of the end of this block"""
    if not stmts:
        return False
    last = stmts[-1]
    if isinstance(last, (ast.Return, ast.Raise, ast.Continue, ast.Break)):
        return True
    if isinstance(last, ast.If) and last.orelse:
        return _always_leaves(last.body) and _always_leaves(last.orelse)
    return False


def _events(node):
    """sub-expressions of a simple statement in Python's evaluation order: ("load", id) | ("pure",) for constants and
    attribute look-ups | ("effect",) for everything that may run code or raise | ("cond",) for parts evaluated only
    sometimes and for anything this function does not know"""
    if node is None:
        return
    if isinstance(node, ast.Assign):
        yield from _events(node.value)
        for t in node.targets:
            yield from _events(t)
    elif isinstance(node, (ast.Expr, ast.Return)):
        yield from _events(node.value)
    elif isinstance(node, ast.Name):
        if isinstance(node.ctx, ast.Load):
            yield ("load", node.id)
    elif isinstance(node, ast.Constant):
        yield ("pure",)
    elif isinstance(node, ast.Attribute):
        yield from _events(node.value)
        yield ("pure",) if isinstance(node.ctx, ast.Load) else ("effect",)
    elif isinstance(node, ast.Call):
        yield from _events(node.func)
        for a in node.args:
            if isinstance(a, ast.Starred):
                yield ("cond",)
            yield from _events(a)
        for k in node.keywords:
            if k.arg is None:
                yield ("cond",)
            yield from _events(k.value)
        yield ("effect",)
    elif isinstance(node, ast.BinOp):
        yield from _events(node.left)
        yield from _events(node.right)
        yield ("effect",)
    elif isinstance(node, ast.UnaryOp):
        yield from _events(node.operand)
        yield ("effect",)
    elif isinstance(node, ast.Compare) and len(node.ops) == 1:
        yield from _events(node.left)
        yield from _events(node.comparators[0])
        yield ("effect",)
    elif isinstance(node, ast.Subscript):
        yield from _events(node.value)
        yield from _events(node.slice)
        yield ("effect",)
    elif isinstance(node, (ast.Tuple, ast.List)):
        for e in node.elts:
            if isinstance(e, ast.Starred):
                yield ("cond",)
            yield from _events(e)
    elif isinstance(node, ast.JoinedStr):
        for v in node.values:
            yield from _events(v)
    elif isinstance(node, ast.FormattedValue):
        yield from _events(node.value)
        yield ("effect",)
        yield from _events(node.format_spec)
    else:
        yield ("cond",)


class _FnNorm:
    """statement-level rules; needs the whole function (which names are parameters, how often a name occurs)"""

    def __init__(self, fn):
        a = fn.args
        self.params = {x.arg for x in a.posonlyargs + a.args + a.kwonlyargs}
        if a.vararg:
            self.params.add(a.vararg.arg)
        if a.kwarg:
            self.params.add(a.kwarg.arg)
        self.body = [_ExprNorm().visit(st) for st in fn.body]
        self.root = ast.Module(body=self.body, type_ignores=[])

    # -- facts about the function as it is now
    def count(self, ident):
        return len(_names(self.root, ident))

    def is_local(self, ident):
        return ident not in self.params and any(not isinstance(n.ctx, ast.Load) for n in _names(self.root, ident))

    def known_list(self, ident):
        """a local every binding of which is `x = [..]` / `x = [.. for ..]` / `x = list(..)` / `x += ..`: its value is a
        `list` wherever it is bound"""
        if not self.is_local(ident):
            return False
        stores = [n for n in _names(self.root, ident) if not isinstance(n.ctx, ast.Load)]
        good = 0
        for st in ast.walk(self.root):
            if (isinstance(st, ast.Assign) and len(st.targets) == 1 and isinstance(st.targets[0], ast.Name)
                    and st.targets[0].id == ident):
                v = st.value
                if isinstance(v, (ast.List, ast.ListComp)) or (
                        isinstance(v, ast.Call) and isinstance(v.func, ast.Name) and v.func.id == "list"):
                    good += 1
            # `x += <iterable>` on a list is list.__iadd__: extends in place and rebinds x to the same list
            if (isinstance(st, ast.AugAssign) and isinstance(st.op, ast.Add) and isinstance(st.target, ast.Name)
                    and st.target.id == ident):
                good += 1
        return good == len(stores)

    def private_list(self, ident):
        """a known list that is only ever tested, measured, popped, appended to or extended: no alias of it exists, so
        nobody outside the function can see in which state an exception leaves it"""
        if not self.known_list(ident):
            return False
        parents = {}
        for p in ast.walk(self.root):
            for c in ast.iter_child_nodes(p):
                parents[id(c)] = p
        for n in _names(self.root, ident):
            p = parents.get(id(n))
            if not isinstance(n.ctx, ast.Load):
                continue
            if isinstance(p, ast.Attribute) and p.attr in ("pop", "append", "extend") and isinstance(
                    parents.get(id(p)), ast.Call) and parents[id(p)].func is p:
                continue
            if isinstance(p, (ast.While, ast.If)) and p.test is n:
                continue
            if _is_len_call(p) and p.args[0] is n:
                continue
            if (isinstance(p, ast.Compare) and p.left is n and len(p.ops) == 1
                    and isinstance(p.comparators[0], ast.List) and not p.comparators[0].elts):
                continue                                   # `L != []`, `L == []`
            return False
        return True

    # -- conditions
    def test(self, e):
        """in the test of `if` / `while`: `len(L) > 0` and `L != []` = `L` for a known list L (truth value of a list)"""
        if isinstance(e, ast.BoolOp):
            return ast.BoolOp(op=e.op, values=[self.test(v) for v in e.values])
        if isinstance(e, ast.Compare) and len(e.ops) == 1:
            l, op, r = e.left, e.ops[0], e.comparators[0]
            if (isinstance(op, ast.Gt) and _is_len_call(l) and isinstance(l.args[0], ast.Name)
                    and self.known_list(l.args[0].id) and _is_int_const(r) and r.value == 0):
                return ast.Name(id=l.args[0].id, ctx=ast.Load())
            if (isinstance(op, ast.NotEq) and isinstance(l, ast.Name) and self.known_list(l.id)
                    and isinstance(r, ast.List) and not r.elts):
                return ast.Name(id=l.id, ctx=ast.Load())
        return e

    # -- blocks
    def block(self, stmts):
        out = []
        for st in stmts:
            out.extend(self.stmt(st))
        return out

    def stmt(self, st):
        # doc strings / stray string or number literals, `pass`: no effect
        if isinstance(st, ast.Expr) and isinstance(st.value, ast.Constant):
            return []
        if isinstance(st, ast.Pass):
            return []
        # `x: T = v` = `x = v`, `x: T` = nothing: annotations of locals are not evaluated inside a function
        if isinstance(st, ast.AnnAssign) and isinstance(st.target, ast.Name) and st.simple:
            if st.value is None:
                return []
            return self.stmt(ast.Assign(targets=[st.target], value=st.value, lineno=st.lineno))
        # `x = A if c else B` = `if c: x = A` / `else: x = B`; an arm `x = x` does nothing when `c` has already read x
        # (so x is bound) -- covers `t = compute() if t is None else t`
        if (isinstance(st, ast.Assign) and len(st.targets) == 1 and isinstance(st.targets[0], ast.Name)
                and isinstance(st.value, ast.IfExp)):
            x, v = st.targets[0].id, st.value
            reads_x = any(isinstance(n.ctx, ast.Load) for n in _names(v.test, x))

            def arm(val):
                if isinstance(val, ast.Name) and val.id == x and reads_x:
                    return []
                return [ast.Assign(targets=[ast.Name(id=x, ctx=ast.Store())], value=val, lineno=st.lineno)]
            body, orelse, test = arm(v.body), arm(v.orelse), v.test
            if not body and orelse:
                # `if c: pass` / `else: S` = `if not c: S`; only for the negations the expression rules know
                neg = _ExprNorm().visit(ast.UnaryOp(op=ast.Not(), operand=test))
                if isinstance(neg, ast.UnaryOp):
                    return [st]
                body, orelse, test = orelse, [], neg
            if body:
                return self.stmt(ast.If(test=test, body=body, orelse=orelse, lineno=st.lineno))
            return [st]
        if isinstance(st, ast.If):
            body, orelse = self.block(st.body), self.block(st.orelse)
            test = self.test(st.test)
            # `else:` / `elif` after a branch that always returns / raises / continues / breaks = no else
            if orelse and _always_leaves(body):
                return [ast.If(test=test, body=body, orelse=[], lineno=st.lineno)] + orelse
            # `if a:` + (only) `if b: S`, no else anywhere = `if a and b: S`: `and` evaluates b only when a is true
            if not orelse and len(body) == 1 and isinstance(body[0], ast.If) and not body[0].orelse:
                vals = []
                for t in (test, body[0].test):
                    vals.extend(t.values if isinstance(t, ast.BoolOp) and isinstance(t.op, ast.And) else [t])
                return [ast.If(test=ast.BoolOp(op=ast.And(), values=vals), body=body[0].body, orelse=[],
                               lineno=st.lineno)]
            return [ast.If(test=test, body=body or [ast.Pass()], orelse=orelse, lineno=st.lineno)]
        if isinstance(st, ast.While):
            return [ast.While(test=self.test(st.test), body=self.block(st.body) or [ast.Pass()],
                              orelse=self.block(st.orelse), lineno=st.lineno)]
        if isinstance(st, ast.For):
            return [ast.For(target=st.target, iter=st.iter, body=self.block(st.body) or [ast.Pass()],
                            orelse=self.block(st.orelse), type_comment=None, lineno=st.lineno)]
        if isinstance(st, ast.Try):
            hs = [ast.ExceptHandler(type=h.type, name=h.name, body=self.block(h.body) or [ast.Pass()], lineno=h.lineno)
                  for h in st.handlers]
            return [ast.Try(body=self.block(st.body) or [ast.Pass()], handlers=hs, orelse=self.block(st.orelse),
                            finalbody=self.block(st.finalbody), lineno=st.lineno)]
        loop = self.comprehension_to_loop(st)
        if loop is not None:
            return [loop]
        return [st]

    def comprehension_to_loop(self, st):
        """`L.extend(E for v in IT)` / `L.extend([E for v in IT])` / `L += [E for v in IT]` = `for v in IT: L.append(E)`
        when L is a private list of the function, L does not occur in E or IT (so it does not matter that the
        comprehension computes all elements before the first is appended; if IT raises half way the function is left
        by that exception either way and nobody can see L), and v is not otherwise a name of the function (the loop
        leaves v bound, the comprehension does not)."""
        comp = lst = None
        if (isinstance(st, ast.Expr) and isinstance(st.value, ast.Call) and isinstance(st.value.func, ast.Attribute)
                and st.value.func.attr == "extend" and isinstance(st.value.func.value, ast.Name)
                and len(st.value.args) == 1 and not st.value.keywords
                and isinstance(st.value.args[0], (ast.ListComp, ast.GeneratorExp))):
            lst, comp = st.value.func.value.id, st.value.args[0]
        elif (isinstance(st, ast.AugAssign) and isinstance(st.op, ast.Add) and isinstance(st.target, ast.Name)
              and isinstance(st.value, ast.ListComp)):
            lst, comp = st.target.id, st.value
        if comp is None or len(comp.generators) != 1:
            return None
        g = comp.generators[0]
        if g.ifs or g.is_async or not isinstance(g.target, ast.Name):
            return None
        v = g.target.id
        ok = self.private_list(lst)
        if not ok or _names(comp.elt, lst) or _names(g.iter, lst) or v in self.params:
            return None
        if self.count(v) != len(_names(comp, v)):
            return None
        call = ast.Call(func=ast.Attribute(value=ast.Name(id=lst, ctx=ast.Load()), attr="append", ctx=ast.Load()),
                        args=[comp.elt], keywords=[])
        return ast.For(target=ast.Name(id=v, ctx=ast.Store()), iter=g.iter, body=[ast.Expr(value=call)], orelse=[],
                       type_comment=None, lineno=st.lineno)

    # -- single-use temporaries
    def inline_temps(self, stmts):
        """`x = E` directly followed by a simple statement S that holds the ONLY other occurrence of the local x, read
        before S does anything that could run code:  = S with E in place of x.  Before the read, S may only have
        looked up parameters and attributes of them and built constants (ASSUMPTION: such look-ups neither fail nor run
        code, e.g. `self.add_unbranched_segment_group` -- then E is evaluated at the same point relative to every
        effect, and x is dead afterwards)."""
        for blk in self.blocks(stmts):
            changed = True
            while changed:
                changed = False
                for i in range(len(blk) - 1):
                    a, s = blk[i], blk[i + 1]
                    if not (isinstance(a, ast.Assign) and len(a.targets) == 1 and isinstance(a.targets[0], ast.Name)):
                        continue
                    x = a.targets[0].id
                    if x in self.params or self.count(x) != 2 or not isinstance(s, (ast.Assign, ast.Expr, ast.Return)):
                        continue
                    uses = [n for n in _names(s, x) if isinstance(n.ctx, ast.Load)]
                    if len(uses) != 1 or any(e == ("cond",) for e in _events(a.value)):
                        continue
                    ok = False
                    for ev in _events(s):
                        if ev == ("load", x):
                            ok = True
                            break
                        if ev == ("pure",) or (ev[0] == "load" and ev[1] in self.params):
                            continue
                        break
                    if not ok:
                        continue

                    class Sub(ast.NodeTransformer):
                        def visit_Name(self, n):
                            return a.value if n is uses[0] else n
                    blk[i:i + 2] = [_ExprNorm().visit(Sub().visit(s))]
                    changed = True
                    break
        return stmts

    def blocks(self, stmts):
        yield stmts
        for st in stmts:
            for f in ("body", "orelse", "finalbody"):
                sub = getattr(st, f, None)
                if isinstance(sub, list) and sub and isinstance(sub[0], ast.stmt):
                    yield from self.blocks(sub)
            for h in getattr(st, "handlers", []) or []:
                yield from self.blocks(h.body)

    def guard_clauses(self, body):
        """at the top level of the function, `if not X: return` followed by the REST of the function = `if X: <rest>`:
        either way nothing more is done and None is returned when X is false, and the rest runs (and the function ends
        after it) when X is true.  Only the negations the expression rules know (`not X`, `a is not b`, ...)."""
        for i in range(len(body) - 2, -1, -1):
            st = body[i]
            if not (isinstance(st, ast.If) and not st.orelse and len(st.body) == 1 and isinstance(st.body[0], ast.Return)
                    and (st.body[0].value is None or (isinstance(st.body[0].value, ast.Constant)
                                                      and st.body[0].value.value is None))):
                continue
            if isinstance(st.test, ast.UnaryOp) and isinstance(st.test.op, ast.Not):
                pos = st.test.operand
            else:
                pos = _ExprNorm().visit(ast.UnaryOp(op=ast.Not(), operand=st.test))
                if isinstance(pos, ast.UnaryOp):
                    continue
            body[i:] = self.stmt(ast.If(test=pos, body=body[i + 1:], orelse=[], lineno=st.lineno))
        return body

    def run(self):
        body = self.guard_clauses(self.block(self.body))
        self.body[:] = body                      # `self.root` sees the current statements
        self.inline_temps(self.body)
        return self.body


def normalise_function(fn):
    """the normal form of a function body (a list of statements)"""
    return _FnNorm(fn).run()


# ------------------------------------------------------------------------------------------------ templates

def _fake_fn(src):
    allp = []
    for ps in PARAMS.values():
        allp += [p for p in ps if p not in allp]
    return ast.parse("def f(%s):\n%s" % (", ".join(allp), "".join("    %s\n" % l for l in src))).body[0]


def _template_stmts():
    out = []
    for name, src in STATEMENTS.items():
        body = normalise_function(_fake_fn([src]))
        assert len(body) == 1, (name, src)
        out.append(([name], body[0], frozenset()))
    for run in RUNS:
        fn = _fake_fn([STATEMENTS[n] for n in run])
        before = {n.id for n in ast.walk(fn) if isinstance(n, ast.Name)}
        body = normalise_function(fn)
        if len(body) != 1:
            continue                                 # this sub-run does not collapse into one statement
        gone = before - {n.id for n in ast.walk(body[0]) if isinstance(n, ast.Name)}
        out.append((list(run), body[0], frozenset(gone)))
    return out


def _template_exprs(table):
    return [([name], _ExprNorm().visit(ast.parse(src, mode="eval").body), frozenset()) for name, src in table.items()]


STMT_TEMPLATES = _template_stmts()
COND_TEMPLATES = _template_exprs(CONDITIONS)
ITER_TEMPLATES = _template_exprs(ITERABLES)


class Unifier:
    """match a source node against the templates MODULO a renaming of the function's locals.  One renaming for the whole
    function, a bijection between the locals of the source function and (some of) the canonical locals; every name that
    is not a local on both sides (parameters, builtins, attributes, keywords) must be literally equal, and a source
    local never matches a non-local.  Consistently renaming ALL occurrences of local variables by an injective map onto
    names that do not otherwise occur is alpha-conversion: it cannot change behaviour (the vocabulary has no
    `locals()`, `eval`, nested scopes or `global`, and what is not in the vocabulary is refused)."""

    def __init__(self, fname, src_locals):
        self.canon_locals = set(CANON_LOCALS[fname])
        self.visible = self.canon_locals | set(PARAMS[fname])
        self.src_locals = set(src_locals)
        self.env, self.inv = {}, {}
        self.eliminated = set()

    def eligible(self, tnode):
        return all(n.id in self.visible for n in ast.walk(tnode) if isinstance(n, ast.Name) and n.id in ALL_VARS)

    def _unify(self, t, s, env, inv):
        if type(t) is not type(s):
            return False
        if isinstance(t, ast.Name):
            if type(t.ctx) is not type(s.ctx):
                return False
            tl, sl = t.id in self.canon_locals, s.id in self.src_locals
            if tl != sl:
                return False
            if not tl:
                return t.id == s.id
            if env.get(s.id, t.id) != t.id or inv.get(t.id, s.id) != s.id:
                return False
            env[s.id], inv[t.id] = t.id, s.id
            return True
        for f in t._fields:
            a, b = getattr(t, f, None), getattr(s, f, None)
            if isinstance(a, list):
                if not isinstance(b, list) or len(a) != len(b):
                    return False
                for x, y in zip(a, b):
                    if isinstance(x, ast.AST):
                        if not self._unify(x, y, env, inv):
                            return False
                    elif x != y:
                        return False
            elif isinstance(a, ast.AST):
                if not isinstance(b, ast.AST) or not self._unify(a, b, env, inv):
                    return False
            elif a != b:
                return False
        return True

    def match(self, templates, node):
        """-> list of primitive names | None (nothing matches) | "ambiguous" """
        hits = []
        for names, tnode, gone in templates:
            if not self.eligible(tnode):
                continue
            env, inv = dict(self.env), dict(self.inv)
            if self._unify(tnode, node, env, inv):
                hits.append((names, env, inv, gone))
        if not hits:
            return None
        if len({tuple(h[0]) for h in hits}) > 1:
            return "ambiguous"
        names, self.env, self.inv, gone = hits[0]
        self.eliminated |= gone
        return names

    def name(self, canon, src):
        """a single binding occurrence (the `for` target)"""
        t, s = ast.Name(id=canon, ctx=ast.Store()), ast.Name(id=src, ctx=ast.Store())
        env, inv = dict(self.env), dict(self.inv)
        if self._unify(t, s, env, inv):
            self.env, self.inv = env, inv
            return True
        return False


class Tr:
    def __init__(self, label):
        self.label = label
        self.gaps = []
        self.u = None

    def gap(self, node, why):
        self.gaps.append("%s: line %s: %s" % (self.label, getattr(node, "lineno", "?"), why))
        return ["unsupported"]

    def cond(self, e):
        names = self.u.match(COND_TEMPLATES, e)
        if names is None or names == "ambiguous":
            self.gap(e, "condition not in the vocabulary: %s" % ast.unparse(e))
            return "(fun _ => false)"
        return names[0]

    def block(self, stmts, ind):
        items = []
        for st in stmts:
            items.extend(self.stmt(st, ind + 2))
        pad = " " * ind
        if not items:
            return "skip"
        return "block [\n" + ",\n".join(" " * (ind + 2) + it for it in items) + "\n" + pad + "]"

    def stmt(self, st, ind):
        if isinstance(st, ast.While):
            if st.orelse:
                return self.gap(st, "while ... else")
            return ["whileC %s (%s)" % (self.cond(st.test), self.block(st.body, ind))]
        if isinstance(st, ast.If):
            if st.orelse:
                return self.gap(st, "if with else/elif")
            return ["ifC %s (%s)" % (self.cond(st.test), self.block(st.body, ind))]
        if isinstance(st, ast.Try):
            if st.orelse or st.finalbody or len(st.handlers) != 1:
                return self.gap(st, "try with else / finally / several handlers")
            h = st.handlers[0]
            if not (isinstance(h.type, ast.Name) and h.type.id == "KeyError" and h.name is None
                    and "KeyError" not in self.u.src_locals):
                return self.gap(st, "handler is not a bare `except KeyError:`")
            return ["tryKeyError (%s) (%s)" % (self.block(st.body, ind), self.block(h.body, ind))]
        if isinstance(st, ast.For):
            if st.orelse:
                return self.gap(st, "for ... else")
            if not (isinstance(st.target, ast.Name) and self.u.name("child", st.target.id)):
                return self.gap(st, "for target is not (a local standing for) `child`")
            it = self.u.match(ITER_TEMPLATES, st.iter)
            if it is None or it == "ambiguous":
                return self.gap(st, "iterable not in the vocabulary: %s" % ast.unparse(st.iter))
            return ["forEach %s (%s)" % (it[0], self.block(st.body, ind))]
        names = self.u.match(STMT_TEMPLATES, st)
        if names is None:
            return self.gap(st, "statement not in the vocabulary: %s" % ast.unparse(st).split("\n")[0][:100])
        if names == "ambiguous":
            return self.gap(st, "statement matches several primitives: %s" % ast.unparse(st).split("\n")[0][:100])
        return list(names)

    def function(self, fn):
        want = PARAMS[fn.name]
        a = fn.args
        have = [x.arg for x in a.posonlyargs + a.args]
        if have != want or a.vararg or a.kwarg or a.kwonlyargs:
            self.gap(fn, "parameters %s, expected %s" % (have, want))
        if fn.decorator_list:
            self.gap(fn, "decorated")
        body = normalise_function(fn)
        src_locals = {n.id for st in body for n in ast.walk(st)
                      if isinstance(n, ast.Name) and not isinstance(n.ctx, ast.Load)} - set(have)
        self.u = Unifier(fn.name, src_locals)
        text = self.block(body, 2)
        # a canonical local that a matched RUN binds on the way (inlined away in the normal form) must not ALSO stand
        # for a source local: the canonical program would overwrite it where the source does not
        clash = sorted(self.u.eliminated & set(self.u.inv))
        if clash:
            self.gap(fn, "canonical local(s) %s are both inlined away and in use" % clash)
        return have, text


def find_in_nml(tree):
    out = {}
    for node in tree.body:
        if isinstance(node, ast.ClassDef) and node.name == "Cell":
            for it in node.body:
                if isinstance(it, ast.FunctionDef) and it.name in TARGETS:
                    out.setdefault(it.name, []).append(it)
    return out


def find_in_helpers(tree):
    """MethodSpec(name=, source='''...''', class_names=...) calls; the source is class-body text"""
    out, problems = {}, []
    for node in ast.walk(tree):
        if not (isinstance(node, ast.Call) and isinstance(node.func, ast.Name) and node.func.id == "MethodSpec"):
            continue
        kw = {k.arg: k.value for k in node.keywords}
        src, cn = kw.get("source"), kw.get("class_names")
        if not (isinstance(src, ast.Constant) and isinstance(src.value, str)):
            continue
        classes = []
        if isinstance(cn, ast.Constant) and isinstance(cn.value, str):
            classes = [cn.value]
        elif isinstance(cn, (ast.List, ast.Tuple)):
            classes = [e.value for e in cn.elts if isinstance(e, ast.Constant)]
        if "Cell" not in classes:
            continue
        try:
            sub = ast.parse("class __Spec__:\n" + src.value + "\n    pass\n")
        except SyntaxError as e:
            problems.append("helper_methods.py: MethodSpec for %s does not parse: %s" % (classes, e))
            continue
        for it in sub.body[0].body:
            if isinstance(it, ast.FunctionDef) and it.name in TARGETS:
                out.setdefault(it.name, []).append(it)
    return out, problems


HEADER = """/-
GENERATED by translators/py2lean_section.py from neuroml/nml/helper_methods.py and neuroml/nml/nml.py
(both files gave this same text). Regenerated on every `bin/check C16`; do not edit.
-/
import NmlVerif.Model.SectionIR

namespace NmlVerif.Gen.Section
open NmlVerif.Section NmlVerif.Section.IR

"""
FOOTER = "\nend NmlVerif.Gen.Section\n"
LEAN_NAME = {"__sectionise": "sectionise", "create_unbranched_segment_group_branches": "create"}


def translate_repo(repo):
    """returns (lean_text, gaps)"""
    gaps = []
    hp = os.path.join(repo, "neuroml", "nml", "helper_methods.py")
    np_ = os.path.join(repo, "neuroml", "nml", "nml.py")
    with open(hp, encoding="utf-8") as fh:
        htree = ast.parse(fh.read())
    with open(np_, encoding="utf-8") as fh:
        ntree = ast.parse(fh.read())
    hfun, problems = find_in_helpers(htree)
    gaps += problems
    nfun = find_in_nml(ntree)
    chunks = []
    for key in ["__sectionise", "create_unbranched_segment_group_branches"]:      # callee first
        texts = {}
        for label, table in (("helper_methods.py", hfun), ("nml.py", nfun)):
            nodes = table.get(key, [])
            if len(nodes) != 1:
                gaps.append("%s: %d definitions of Cell.%s (expected 1)" % (label, len(nodes), key))
                continue
            tr = Tr("%s: Cell.%s" % (label, key))
            params, body = tr.function(nodes[0])
            gaps += tr.gaps
            texts[label] = (params, body)
        if len(texts) == 2 and texts["helper_methods.py"] != texts["nml.py"]:
            gaps.append("Cell.%s: helper_methods.py and nml.py translate differently" % key)
        if texts:
            params, body = texts.get("nml.py") or list(texts.values())[0]
            nm = LEAN_NAME[key]
            binder = " (oi : List Group → Group → Group)" if key.startswith("create") else ""
            chunks.append("/-- parameters of `Cell.%s` -/\ndef %sParams : List String := [%s]\n" % (
                key, nm, ", ".join('"%s"' % p for p in params)))
            chunks.append("/-- body of `Cell.%s` -/\ndef %s%s : Cmd :=\n  %s\n" % (key, nm, binder, body))
        else:
            nm = LEAN_NAME[key]
            binder = " (oi : List Group → Group → Group)" if key.startswith("create") else ""
            chunks.append("def %sParams : List String := []\n" % nm)
            chunks.append("/-- `Cell.%s` was not found -/\ndef %s%s : Cmd := unsupported\n" % (key, nm, binder))
    return HEADER + "\n".join(chunks) + FOOTER, gaps


def regenerate(repo, out_path):
    text, gaps = translate_repo(repo)
    old = None
    if os.path.exists(out_path):
        with open(out_path, encoding="utf-8") as fh:
            old = fh.read()
    if old != text:
        os.makedirs(os.path.dirname(out_path), exist_ok=True)
        tmp = out_path + ".tmp%d" % os.getpid()
        with open(tmp, "w", encoding="utf-8") as fh:
            fh.write(text)
        os.replace(tmp, out_path)
    return gaps


if __name__ == "__main__":
    repo = sys.argv[1] if len(sys.argv) > 1 else os.environ.get("VERIF_REPO", "/repo")
    here = os.path.dirname(os.path.dirname(os.path.abspath(__file__)))
    out = sys.argv[2] if len(sys.argv) > 2 else os.path.join(here, "lean", "NmlVerif", "Gen", "Section.lean")
    gs = regenerate(repo, out)
    for g in gs:
        print("GAP:", g)
    print("wrote", out, "gaps:", len(gs))
