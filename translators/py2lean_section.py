"""py2lean_section — translate `Cell.create_unbranched_segment_group_branches` and the private `Cell.__sectionise`
into terms of the imperative vocabulary of `lean/NmlVerif/Model/SectionIR.lean` (property C16).

Reads (Python `ast`; nothing is imported or executed) from the CURRENT working tree of the repository

    neuroml/nml/helper_methods.py   (method sources are string constants inside MethodSpec(source=...))
    neuroml/nml/nml.py              (the generated bindings that ship a copy of every helper)

and writes `lean/NmlVerif/Gen/Section.lean`:

    def sectionise : Cmd                                  -- body of `__sectionise`
    def create (oi) : Cmd                                 -- body of `create_unbranched_segment_group_branches`
    def sectioniseParams / createParams : List String     -- their parameter names

What is translated compositionally (taken from the source, whatever it is): the ORDER of statements and the NESTING of
`while` / `if` (without else) / `try ... except KeyError` / `for child in [reversed(]children[)]` blocks.
What is recognised by exact match of the statement's AST (comments, blank lines and doc strings do not matter,
anything else does): the simple statements and the conditions, each of which is one named primitive of
`SectionIR.lean` (the table `STATEMENTS` / `CONDITIONS` below gives the Python text of each).
Everything else is a GAP: reported, and rendered as `unsupported` so that the equivalence proof in
`Props/C16Gen.lean` cannot go through.  Both files must give the same translation.
"""
import ast
import os
import sys

TARGETS = ["create_unbranched_segment_group_branches", "__sectionise"]

# primitive name -> the one Python statement it stands for
STATEMENTS = {
    "initTodo": "todo = [(root_segment_id, seg_group)]",
    "popTodo": "root_segment_id, seg_group = todo.pop()",
    "getSegmentRoot": "seg = self.get_segment(root_segment_id)",
    "setProximalActual": "seg.proximal = self.get_actual_proximal(seg.id)",
    "groupNameCountMinus1": 'group_name = f"seg_group_{len(self.morphology.segment_groups) - 1}_seg_{seg.id}"',
    "numSegGroups": "num_seg_groups = len(self.morphology.segment_groups)",
    "groupNameNum": 'group_name = f"seg_group_{num_seg_groups}_seg_{seg.id}"',
    "addUnbranchedSegGroup": "seg_group = self.add_unbranched_segment_group(group_name)",
    "addUnbranchedNewSegGroup": "new_seg_group = self.add_unbranched_segment_group(group_name)",
    "lookupChildren": "children = morph_tree[root_segment_id]",
    "addMember": 'seg_group.add("Member", segments=root_segment_id)',
    "descend": "root_segment_id = children[0]",
    "appendTodoChildNone": "todo.append((child, None))",
    "getCachedTree": 'morph_tree = getattr(self, "adjacency_list", None)',
    "computeTree": "morph_tree = self.get_segment_adjacency_list()",
    "reorderGroupsP": "self.reorder_segment_groups()",
    "(optimiseGroupsP oi)": "self.optimise_segment_groups()",
    "(callSectionise sectionise)": "self.__sectionise(root_segment_id, new_seg_group, morph_tree)",
}
CONDITIONS = {
    "todoNonEmpty": "todo",
    "segGroupIsNone": "seg_group is None",
    "oneChild": "len(children) == 1",
    "manyChildren": "len(children) > 1",
    "morphTreeIsNone": "morph_tree is None",
    "segProxNoneAndParent": "seg.proximal is None and seg.parent is not None",
    "reorderFlag": "reorder_segment_groups",
    "optimiseFlag": "optimise_segment_groups",
}
ITERABLES = {
    "reversedChildren": "reversed(children)",
    "childrenInOrder": "children",
}
PARAMS = {
    "create_unbranched_segment_group_branches": ["self", "root_segment_id", "use_convention", "reorder_segment_groups",
                                                 "optimise_segment_groups"],
    "__sectionise": ["self", "root_segment_id", "seg_group", "morph_tree"],
}


def _dump(node):
    return ast.dump(node, include_attributes=False)


def _mangle(src):
    # inside `class Cell` the compiler mangles `self.__sectionise`; ast does not -- nothing to do, but keep one place
    return src


STMT_DUMPS = {_dump(ast.parse(_mangle(src)).body[0]): name for name, src in STATEMENTS.items()}
COND_DUMPS = {_dump(ast.parse(src, mode="eval").body): name for name, src in CONDITIONS.items()}
ITER_DUMPS = {_dump(ast.parse(src, mode="eval").body): name for name, src in ITERABLES.items()}


class Tr:
    def __init__(self, label):
        self.label = label
        self.gaps = []

    def gap(self, node, why):
        self.gaps.append("%s: line %s: %s" % (self.label, getattr(node, "lineno", "?"), why))
        return "unsupported"

    def cond(self, e):
        name = COND_DUMPS.get(_dump(e))
        if name is None:
            self.gap(e, "condition not in the vocabulary: %s" % ast.unparse(e))
            return "(fun _ => false)"
        return name

    def block(self, stmts, ind):
        items = []
        for k, st in enumerate(stmts):
            if k == 0 and isinstance(st, ast.Expr) and isinstance(st.value, ast.Constant) and isinstance(st.value.value, str):
                continue                                   # doc string
            items.append(self.stmt(st, ind + 2))
        pad = " " * ind
        if not items:
            return "skip"
        return "block [\n" + ",\n".join(" " * (ind + 2) + it for it in items) + "\n" + pad + "]"

    def stmt(self, st, ind):
        if isinstance(st, ast.While):
            if st.orelse:
                return self.gap(st, "while ... else")
            return "whileC %s (%s)" % (self.cond(st.test), self.block(st.body, ind))
        if isinstance(st, ast.If):
            if st.orelse:
                return self.gap(st, "if with else/elif")
            return "ifC %s (%s)" % (self.cond(st.test), self.block(st.body, ind))
        if isinstance(st, ast.Try):
            if st.orelse or st.finalbody or len(st.handlers) != 1:
                return self.gap(st, "try with else / finally / several handlers")
            h = st.handlers[0]
            if not (isinstance(h.type, ast.Name) and h.type.id == "KeyError" and h.name is None):
                return self.gap(st, "handler is not a bare `except KeyError:`")
            return "tryKeyError (%s) (%s)" % (self.block(st.body, ind), self.block(h.body, ind))
        if isinstance(st, ast.For):
            if st.orelse:
                return self.gap(st, "for ... else")
            if not (isinstance(st.target, ast.Name) and st.target.id == "child"):
                return self.gap(st, "for target is not `child`")
            it = ITER_DUMPS.get(_dump(st.iter))
            if it is None:
                return self.gap(st, "iterable not in the vocabulary: %s" % ast.unparse(st.iter))
            return "forEach %s (%s)" % (it, self.block(st.body, ind))
        name = STMT_DUMPS.get(_dump(st))
        if name is None:
            return self.gap(st, "statement not in the vocabulary: %s" % ast.unparse(st).split("\n")[0][:100])
        return name

    def function(self, fn):
        want = PARAMS[fn.name]
        a = fn.args
        have = [x.arg for x in a.posonlyargs + a.args]
        if have != want or a.vararg or a.kwarg or a.kwonlyargs:
            self.gap(fn, "parameters %s, expected %s" % (have, want))
        if fn.decorator_list:
            self.gap(fn, "decorated")
        return have, self.block(fn.body, 2)


def find_in_nml(tree):
    out = {}
    for node in tree.body:
        if isinstance(node, ast.ClassDef) and node.name == "Cell":
            for it in node.body:
                if isinstance(it, ast.FunctionDef) and it.name in TARGETS:
                    out.setdefault(it.name, []).append(it)
    return out


def find_in_helpers(tree):
    """MethodSpec(name=, source='''...''', class_names=...) calls; the source is class-body text"""
    out, problems = {}, []
    for node in ast.walk(tree):
        if not (isinstance(node, ast.Call) and isinstance(node.func, ast.Name) and node.func.id == "MethodSpec"):
            continue
        kw = {k.arg: k.value for k in node.keywords}
        src, cn = kw.get("source"), kw.get("class_names")
        if not (isinstance(src, ast.Constant) and isinstance(src.value, str)):
            continue
        classes = []
        if isinstance(cn, ast.Constant) and isinstance(cn.value, str):
            classes = [cn.value]
        elif isinstance(cn, (ast.List, ast.Tuple)):
            classes = [e.value for e in cn.elts if isinstance(e, ast.Constant)]
        if "Cell" not in classes:
            continue
        try:
            sub = ast.parse("class __Spec__:\n" + src.value + "\n    pass\n")
        except SyntaxError as e:
            problems.append("helper_methods.py: MethodSpec for %s does not parse: %s" % (classes, e))
            continue
        for it in sub.body[0].body:
            if isinstance(it, ast.FunctionDef) and it.name in TARGETS:
                out.setdefault(it.name, []).append(it)
    return out, problems


HEADER = """/-
GENERATED by translators/py2lean_section.py from neuroml/nml/helper_methods.py and neuroml/nml/nml.py
(both files gave this same text). Regenerated on every `bin/check C16`; do not edit.
-/
import NmlVerif.Model.SectionIR

namespace NmlVerif.Gen.Section
open NmlVerif.Section NmlVerif.Section.IR

"""
FOOTER = "\nend NmlVerif.Gen.Section\n"
LEAN_NAME = {"__sectionise": "sectionise", "create_unbranched_segment_group_branches": "create"}


def translate_repo(repo):
    """returns (lean_text, gaps)"""
    gaps = []
    hp = os.path.join(repo, "neuroml", "nml", "helper_methods.py")
    np_ = os.path.join(repo, "neuroml", "nml", "nml.py")
    with open(hp, encoding="utf-8") as fh:
        htree = ast.parse(fh.read())
    with open(np_, encoding="utf-8") as fh:
        ntree = ast.parse(fh.read())
    hfun, problems = find_in_helpers(htree)
    gaps += problems
    nfun = find_in_nml(ntree)
    chunks = []
    for key in ["__sectionise", "create_unbranched_segment_group_branches"]:      # callee first
        texts = {}
        for label, table in (("helper_methods.py", hfun), ("nml.py", nfun)):
            nodes = table.get(key, [])
            if len(nodes) != 1:
                gaps.append("%s: %d definitions of Cell.%s (expected 1)" % (label, len(nodes), key))
                continue
            tr = Tr("%s: Cell.%s" % (label, key))
            params, body = tr.function(nodes[0])
            gaps += tr.gaps
            texts[label] = (params, body)
        if len(texts) == 2 and texts["helper_methods.py"] != texts["nml.py"]:
            gaps.append("Cell.%s: helper_methods.py and nml.py translate differently" % key)
        if texts:
            params, body = texts.get("nml.py") or list(texts.values())[0]
            nm = LEAN_NAME[key]
            binder = " (oi : List Group → Group → Group)" if key.startswith("create") else ""
            chunks.append("/-- parameters of `Cell.%s` -/\ndef %sParams : List String := [%s]\n" % (
                key, nm, ", ".join('"%s"' % p for p in params)))
            chunks.append("/-- body of `Cell.%s` -/\ndef %s%s : Cmd :=\n  %s\n" % (key, nm, binder, body))
        else:
            nm = LEAN_NAME[key]
            binder = " (oi : List Group → Group → Group)" if key.startswith("create") else ""
            chunks.append("def %sParams : List String := []\n" % nm)
            chunks.append("/-- `Cell.%s` was not found -/\ndef %s%s : Cmd := unsupported\n" % (key, nm, binder))
    return HEADER + "\n".join(chunks) + FOOTER, gaps


def regenerate(repo, out_path):
    text, gaps = translate_repo(repo)
    old = None
    if os.path.exists(out_path):
        with open(out_path, encoding="utf-8") as fh:
            old = fh.read()
    if old != text:
        os.makedirs(os.path.dirname(out_path), exist_ok=True)
        tmp = out_path + ".tmp%d" % os.getpid()
        with open(tmp, "w", encoding="utf-8") as fh:
            fh.write(text)
        os.replace(tmp, out_path)
    return gaps


if __name__ == "__main__":
    repo = sys.argv[1] if len(sys.argv) > 1 else os.environ.get("VERIF_REPO", "/repo")
    here = os.path.dirname(os.path.dirname(os.path.abspath(__file__)))
    out = sys.argv[2] if len(sys.argv) > 2 else os.path.join(here, "lean", "NmlVerif", "Gen", "Section.lean")
    gs = regenerate(repo, out)
    for g in gs:
        print("GAP:", g)
    print("wrote", out, "gaps:", len(gs))
