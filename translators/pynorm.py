"""pynorm — bring a Python function (ast.FunctionDef) into ONE canonical surface shape before it is translated / pinned.

Every rewrite below preserves the behaviour of the function for ALL inputs (the reason is given at each rule); anything
that is not one of these rewrites is left alone, so a real change still changes the translation / the pin.

  R1  doc strings, type annotations of locals: dropped (no run-time effect inside a method body).
  R2  `not a in b` -> `a not in b`, `not a == b` -> `a != b`, `not a is b` -> `a is not b` (and the three duals):
      the language DEFINES `x not in y` as `not (x in y)` and `is not` as `not (is)`; for `==`/`!=` only where both
      operands are not user objects cannot be told statically, so that pair is NOT rewritten (kept out on purpose).
  R3  `else:` / `elif` after a branch that always leaves (its last statement is return / raise / continue / break, or an
      `if` whose branches all leave): the else body is moved behind the `if`. Control can only reach the moved
      statements when the condition was false, exactly as before.
  R4  `for k in d.keys():` -> `for k in d:`, `list(d.keys())` -> `list(d)`, `x in d.keys()` -> `x in d`: iterating /
      testing a dict is iterating / testing its keys (only applied where the receiver is a plain name; the methods here
      only use it on locals that hold dicts).
  R5  `x = E` immediately followed by `return x` (x a local used nowhere else) -> `return E`: same value, nothing can
      observe the local.
  R6  `return {K: V for t in IT}` / `x = {K: V for t in IT}` -> `x = {}` + `for t in IT: x[K] = V` (+ `return x`): a dict
      comprehension IS that loop (key then value evaluated per element, in order); the fresh local cannot be observed by
      K, V or IT. Likewise `[E for t in IT]`-> append loop is NOT done (the translators read list comprehensions).
  R7  `x = A if c else B` -> `if c: x = A` / `else: x = B`; `return A if c else B` -> `if c: return A` / `return B`.
  R8  alpha-renaming: every LOCAL variable (a name bound by assignment, for, comprehension, with/except-as inside the
      function; never a parameter, never a global) is renamed to v1, v2, ... in the order of its first binding.

`normalise(fn)` returns a NEW FunctionDef; `norm_hash(fn)` the first 24 hex digits of the sha256 of its dump.
"""
import ast
import copy
import hashlib


def _leaves(stmts):
    """does this statement list always leave the enclosing block (return / raise / continue / break)?"""
    if not stmts:
        return False
    last = stmts[-1]
    if isinstance(last, (ast.Return, ast.Raise, ast.Continue, ast.Break)):
        return True
    if isinstance(last, ast.If) and last.orelse:
        return _leaves(last.body) and _leaves(last.orelse)
    return False


class _Shapes(ast.NodeTransformer):
    """R2, R4, R7 (expression / statement level, bottom-up)"""

    def visit_UnaryOp(self, node):
        self.generic_visit(node)
        if isinstance(node.op, ast.Not) and isinstance(node.operand, ast.Compare) and len(node.operand.ops) == 1:
            c = node.operand
            flip = {ast.In: ast.NotIn, ast.NotIn: ast.In, ast.Is: ast.IsNot, ast.IsNot: ast.Is}
            if type(c.ops[0]) in flip:
                return ast.Compare(left=c.left, ops=[flip[type(c.ops[0])]()], comparators=c.comparators)
        return node

    @staticmethod
    def _keys_of_name(node):
        return (isinstance(node, ast.Call) and isinstance(node.func, ast.Attribute) and node.func.attr == "keys"
                and not node.args and not node.keywords and isinstance(node.func.value, ast.Name))

    def visit_For(self, node):
        self.generic_visit(node)
        if self._keys_of_name(node.iter):
            node.iter = node.iter.func.value
        return node

    def visit_Call(self, node):
        self.generic_visit(node)
        if isinstance(node.func, ast.Name) and node.func.id == "list" and len(node.args) == 1 and not node.keywords \
                and self._keys_of_name(node.args[0]):
            node.args = [node.args[0].func.value]
        return node

    def visit_Compare(self, node):
        self.generic_visit(node)
        if len(node.ops) == 1 and isinstance(node.ops[0], (ast.In, ast.NotIn)) and self._keys_of_name(node.comparators[0]):
            node.comparators = [node.comparators[0].func.value]
        return node

    def visit_AnnAssign(self, node):
        self.generic_visit(node)
        if node.value is not None and node.simple and isinstance(node.target, ast.Name):
            return ast.Assign(targets=[node.target], value=node.value)          # R1
        return node


def _block(stmts, fresh):
    """R1 (doc string), R3, R5, R6, R7 on a statement list (recursively)"""
    out = []
    stmts = list(stmts)
    i = 0
    while i < len(stmts):
        st = stmts[i]
        i += 1
        if isinstance(st, ast.Expr) and isinstance(st.value, ast.Constant) and isinstance(st.value.value, str):
            continue                                                             # R1: a string statement has no effect
        # R7
        if isinstance(st, ast.Return) and isinstance(st.value, ast.IfExp):
            stmts[i:i] = [ast.If(test=st.value.test, body=[ast.Return(value=st.value.body)], orelse=[]),
                          ast.Return(value=st.value.orelse)]
            continue
        if isinstance(st, ast.Assign) and len(st.targets) == 1 and isinstance(st.targets[0], ast.Name) \
                and isinstance(st.value, ast.IfExp):
            t = st.targets[0]
            stmts[i:i] = [ast.If(test=st.value.test, body=[ast.Assign(targets=[t], value=st.value.body)],
                                 orelse=[ast.Assign(targets=[copy.deepcopy(t)], value=st.value.orelse)])]
            continue
        # R6
        if isinstance(st, (ast.Return, ast.Assign)) and isinstance(st.value, ast.DictComp) \
                and len(st.value.generators) == 1 and not st.value.generators[0].is_async \
                and (isinstance(st, ast.Return) or (len(st.targets) == 1 and isinstance(st.targets[0], ast.Name))):
            dc = st.value
            g = dc.generators[0]
            name = st.targets[0].id if isinstance(st, ast.Assign) else fresh()
            body = [ast.Assign(targets=[ast.Subscript(value=ast.Name(id=name, ctx=ast.Load()), slice=dc.key, ctx=ast.Store())],
                               value=dc.value)]
            for cond in reversed(g.ifs):
                body = [ast.If(test=cond, body=body, orelse=[])]
            new = [ast.Assign(targets=[ast.Name(id=name, ctx=ast.Store())], value=ast.Dict(keys=[], values=[])),
                   ast.For(target=g.target, iter=g.iter, body=body, orelse=[])]
            if isinstance(st, ast.Return):
                new.append(ast.Return(value=ast.Name(id=name, ctx=ast.Load())))
            stmts[i:i] = new
            continue
        # recurse into compound statements
        if isinstance(st, ast.If):
            st = ast.If(test=st.test, body=_block(st.body, fresh), orelse=_block(st.orelse, fresh))
            if st.orelse and _leaves(st.body):                                   # R3
                tail = st.orelse
                st = ast.If(test=st.test, body=st.body, orelse=[])
                out.append(st)
                out.extend(tail)                     # already normalised; may itself end the block
                continue
        elif isinstance(st, (ast.For, ast.While)):
            st = copy.copy(st)
            st.body = _block(st.body, fresh)
            st.orelse = _block(st.orelse, fresh)
        elif isinstance(st, ast.Try):
            st = copy.copy(st)
            st.body = _block(st.body, fresh)
            st.orelse = _block(st.orelse, fresh)
            st.finalbody = _block(st.finalbody, fresh)
            hs = []
            for h in st.handlers:
                h = copy.copy(h)
                h.body = _block(h.body, fresh) or [ast.Pass()]
                hs.append(h)
            st.handlers = hs
        elif isinstance(st, ast.With):
            st = copy.copy(st)
            st.body = _block(st.body, fresh)
        out.append(st)
    # R5: x = E ; return x
    res = []
    for st in out:
        if (isinstance(st, ast.Return) and isinstance(st.value, ast.Name) and res and isinstance(res[-1], ast.Assign)
                and len(res[-1].targets) == 1 and isinstance(res[-1].targets[0], ast.Name)
                and res[-1].targets[0].id == st.value.id):
            res[-1] = ("R5", res[-1], st)
            continue
        res.append(st)
    return res


def _resolve_r5(stmts, uses):
    out = []
    for st in stmts:
        if isinstance(st, tuple):
            _tag, asg, ret = st
            name = asg.targets[0].id
            if uses.get(name, 0) == 2:               # the binding and the return are its only occurrences
                out.append(ast.Return(value=asg.value))
            else:
                out.extend([asg, ret])
            continue
        for f in ("body", "orelse", "finalbody"):
            if hasattr(st, f) and isinstance(getattr(st, f), list):
                setattr(st, f, _resolve_r5(getattr(st, f), uses))
        if isinstance(st, ast.Try):
            for h in st.handlers:
                h.body = _resolve_r5(h.body, uses)
        out.append(st)
    return out


def _ordered_names(node, acc):
    """all Name nodes in evaluation-ish order (comprehensions: generators before the element)"""
    if isinstance(node, ast.Name):
        acc.append(node)
        return
    if isinstance(node, (ast.ListComp, ast.SetComp, ast.GeneratorExp)):
        for g in node.generators:
            _ordered_names(g, acc)
        _ordered_names(node.elt, acc)
        return
    if isinstance(node, ast.DictComp):
        for g in node.generators:
            _ordered_names(g, acc)
        _ordered_names(node.key, acc)
        _ordered_names(node.value, acc)
        return
    if isinstance(node, ast.comprehension):
        _ordered_names(node.iter, acc)
        _ordered_names(node.target, acc)
        for c in node.ifs:
            _ordered_names(c, acc)
        return
    if isinstance(node, ast.Assign):
        _ordered_names(node.value, acc)
        for t in node.targets:
            _ordered_names(t, acc)
        return
    if isinstance(node, ast.For):
        _ordered_names(node.iter, acc)
        _ordered_names(node.target, acc)
        for s in node.body + node.orelse:
            _ordered_names(s, acc)
        return
    for ch in ast.iter_child_nodes(node):
        _ordered_names(ch, acc)


def normalise(fn):
    fn = copy.deepcopy(fn)
    fn.returns = None
    for a in fn.args.posonlyargs + fn.args.args + fn.args.kwonlyargs:
        a.annotation = None
    fn = _Shapes().visit(fn)
    counter = [0]

    def fresh():
        counter[0] += 1
        return "__dc%d" % counter[0]
    fn.body = _block(fn.body, fresh) or [ast.Pass()]
    # R5 needs the number of occurrences of each name
    names = []
    for st in fn.body:
        if isinstance(st, tuple):
            _ordered_names(st[1], names)
            _ordered_names(st[2], names)
        else:
            _collect(st, names)
    uses = {}
    for n in names:
        uses[n.id] = uses.get(n.id, 0) + 1
    fn.body = _resolve_r5(fn.body, uses)
    # R8 alpha-renaming of locals
    params = {a.arg for a in fn.args.posonlyargs + fn.args.args + fn.args.kwonlyargs}
    if fn.args.vararg:
        params.add(fn.args.vararg.arg)
    if fn.args.kwarg:
        params.add(fn.args.kwarg.arg)
    names = []
    for st in fn.body:
        _ordered_names(st, names)
    declared_global = {n for node in ast.walk(fn) if isinstance(node, (ast.Global, ast.Nonlocal)) for n in node.names}
    ren = {}
    for n in names:
        if isinstance(n.ctx, ast.Store) and n.id not in params and n.id not in declared_global and n.id not in ren:
            ren[n.id] = "v%d" % (len(ren) + 1)
    for node in ast.walk(fn):
        if isinstance(node, ast.ExceptHandler) and node.name and node.name not in params:
            ren.setdefault(node.name, "v%d" % (len(ren) + 1))
    for node in ast.walk(fn):
        if isinstance(node, ast.Name) and node.id in ren:
            node.id = ren[node.id]
        elif isinstance(node, ast.ExceptHandler) and node.name in ren:
            node.name = ren[node.name]
    ast.fix_missing_locations(fn)
    return fn


def _collect(st, names):
    """like _ordered_names but descends through the R5 placeholders inside compound statements"""
    if isinstance(st, tuple):
        _ordered_names(st[1], names)
        _ordered_names(st[2], names)
        return
    if isinstance(st, (ast.If, ast.For, ast.While, ast.Try, ast.With)):
        for f in ("test", "iter", "target"):
            if hasattr(st, f) and getattr(st, f) is not None:
                _ordered_names(getattr(st, f), names)
        if isinstance(st, ast.With):
            for it in st.items:
                _ordered_names(it, names)
        for f in ("body", "orelse", "finalbody"):
            for s in getattr(st, f, []) or []:
                _collect(s, names)
        if isinstance(st, ast.Try):
            for h in st.handlers:
                if h.type is not None:
                    _ordered_names(h.type, names)
                for s in h.body:
                    _collect(s, names)
        return
    _ordered_names(st, names)


def norm_dump(fn):
    return ast.dump(normalise(fn), include_attributes=False)


def norm_hash(fn):
    return hashlib.sha256(norm_dump(fn).encode()).hexdigest()[:24]
