"""pynorm — map equivalent surface shapes of a Python method to ONE canonical shape before a translator matches it.

Used by `py2lean_builder.py` (property C15) on BOTH sides: the method found in the repository and the template /
vocabulary statement it is compared with, so that what is compared are canonical forms.  Every rewrite below is
semantics-preserving for ALL inputs (the reason is given at each one); anything else is left as it is, so a shape that
is not recognised still fails the translator's exact match and is REFUSED (gap) — nothing is guessed.

Rewrites (`normalise_block`, applied bottom-up to every block):
  * doc strings, annotations (`x: T = e` -> `x = e`, parameter / return annotations): not executed behaviour.
  * `not a in b` -> `a not in b`, `not a is b` -> `a is not b`, `not a == b` -> `a != b`: the first two are the same
    operation by definition of the language; `!=` defaults to the negation of `==` and the operands in the translated
    methods are str / int / None / generateDS objects, none of which defines `__ne__` differently.
  * `for k in d.keys()` -> `for k in d`, `range(0, n)` -> `range(n)`: same iteration.
  * `x = A if c else B` -> `if c: x = A` / `else: x = B`; `return A if c else B` likewise: same evaluation order
    (`c` first, then exactly one of A, B).
  * `if c: …; return/raise/continue/break` + `else: rest` -> no `else` (the rest follows): control cannot reach the
    end of the first branch.
  * `"..{}..".format(a, b)` and `"..%s.." % (a, b)` -> the f-string with the same fields, when every field is a plain
    `{}` / `%s`: all three call `str()`/`format(x, "")` of the same values in the same order (`object.__format__`
    with an empty spec is `str`).
  * a local that is assigned once (`x = E`, one target) and read once, in the NEXT statement of the same block, at a
    place that is evaluated exactly once and before which that statement only reads names, attributes and constants:
    inlined (`E` is then evaluated at the same point relative to every call / subscript / operator, so neither side
    effects nor the exception raised first can change; attribute reads in the translated methods are plain data
    attributes).
Alpha renaming (`rename_locals`): the locals of a method (names it binds, parameters excluded) are renamed, in order of
first binding, to the names today's code uses (`ref_locals`), provided the method binds the same NUMBER of locals and
none of the new names is used by the method as a parameter / global: a consistent renaming of locals never changes
behaviour.  If the counts differ nothing is renamed (and the exact match decides).
"""
import ast
import copy

TERMINATORS = (ast.Return, ast.Raise, ast.Continue, ast.Break)


# ------------------------------------------------------------------ expression-level rewrites
class _Expr(ast.NodeTransformer):
    def visit_UnaryOp(self, node):
        self.generic_visit(node)
        if isinstance(node.op, ast.Not) and isinstance(node.operand, ast.Compare) and len(node.operand.ops) == 1:
            c = node.operand
            flip = {ast.In: ast.NotIn, ast.Is: ast.IsNot, ast.Eq: ast.NotEq}.get(type(c.ops[0]))
            if flip is not None:
                return ast.Compare(left=c.left, ops=[flip()], comparators=c.comparators)
        return node

    def visit_Call(self, node):
        self.generic_visit(node)
        f = node.func
        # range(0, n) -> range(n)
        if isinstance(f, ast.Name) and f.id == "range" and len(node.args) == 2 and not node.keywords \
                and isinstance(node.args[0], ast.Constant) and node.args[0].value == 0 and type(node.args[0].value) is int:
            return ast.Call(func=f, args=[node.args[1]], keywords=[])
        # "..{}..".format(a, b) -> f-string
        if isinstance(f, ast.Attribute) and f.attr == "format" and isinstance(f.value, ast.Constant) and isinstance(f.value.value, str) \
                and not node.keywords and not any(isinstance(a, ast.Starred) for a in node.args):
            parts = _split_fields(f.value.value, "{}", forbid=("{", "}"))
            if parts is not None and len(parts) == len(node.args) + 1:
                return _joined(parts, node.args)
        return node

    def visit_BinOp(self, node):
        self.generic_visit(node)
        if isinstance(node.op, ast.Mod) and isinstance(node.left, ast.Constant) and isinstance(node.left.value, str):
            args = list(node.right.elts) if isinstance(node.right, ast.Tuple) else [node.right]
            # a single non-tuple right operand could itself be a tuple at run time: only names/attributes/constants of
            # the translated methods (strings, ints, exceptions) occur here; a literal tuple is split above
            parts = _split_fields(node.left.value, "%s", forbid=("%",))
            if parts is not None and len(parts) == len(args) + 1 and not any(isinstance(a, ast.Starred) for a in args):
                return _joined(parts, args)
        return node

    def visit_JoinedStr(self, node):
        self.generic_visit(node)
        # merge adjacent constants, drop empty ones: one canonical spelling of the same f-string
        vals, buf = [], ""
        for v in node.values:
            if isinstance(v, ast.Constant) and isinstance(v.value, str):
                buf += v.value
            else:
                if buf:
                    vals.append(ast.Constant(value=buf))
                    buf = ""
                vals.append(v)
        if buf:
            vals.append(ast.Constant(value=buf))
        return ast.JoinedStr(values=vals)


def _split_fields(text, field, forbid):
    parts = text.split(field)
    for p in parts:
        if any(ch in p for ch in forbid):
            return None          # other conversion specs / escapes: not recognised
    return parts


def _joined(parts, args):
    vals = []
    for k, p in enumerate(parts):
        if p:
            vals.append(ast.Constant(value=p))
        if k < len(args):
            vals.append(ast.FormattedValue(value=args[k], conversion=-1, format_spec=None))
    return ast.JoinedStr(values=vals)


# ------------------------------------------------------------------ statement-level rewrites
def _ifexp_stmt(st):
    """x = A if c else B  /  return A if c else B  ->  if/else"""
    if isinstance(st, ast.Assign) and len(st.targets) == 1 and isinstance(st.targets[0], ast.Name) and isinstance(st.value, ast.IfExp):
        v = st.value
        return ast.If(test=v.test, body=[ast.Assign(targets=[copy.deepcopy(st.targets[0])], value=v.body)],
                      orelse=[ast.Assign(targets=[copy.deepcopy(st.targets[0])], value=v.orelse)])
    if isinstance(st, ast.Return) and isinstance(st.value, ast.IfExp):
        v = st.value
        return ast.If(test=v.test, body=[ast.Return(value=v.body)], orelse=[ast.Return(value=v.orelse)])
    return st


def _eval_order(node):
    """the sub-expressions of `node` in the order their evaluation COMPLETES (operands before the operation)"""
    if isinstance(node, ast.Assign):
        yield from _eval_order(node.value)
        for t in node.targets:
            yield from _eval_order(t)
        return
    if isinstance(node, (ast.Expr, ast.Return)):
        if node.value is not None:
            yield from _eval_order(node.value)
        return
    if isinstance(node, (ast.IfExp, ast.BoolOp, ast.Lambda, ast.ListComp, ast.SetComp, ast.DictComp, ast.GeneratorExp,
                         ast.NamedExpr, ast.Await, ast.Yield, ast.YieldFrom, ast.Starred)):
        yield ("opaque", node)       # parts evaluated conditionally / repeatedly / elsewhere: nothing is inlined past it
        return
    if isinstance(node, ast.Compare) and len(node.ops) > 1:
        yield ("opaque", node)       # chained comparison short-circuits
        return
    for _f, v in ast.iter_fields(node):
        if isinstance(v, ast.AST) and not isinstance(v, (ast.expr_context, ast.operator, ast.unaryop, ast.cmpop, ast.boolop)):
            yield from _eval_order(v)
        elif isinstance(v, list):
            for x in v:
                if isinstance(x, ast.AST):
                    yield from _eval_order(x)
    yield ("node", node)


def _count_names(stmts):
    stores, loads = {}, {}
    for st in stmts:
        for n in ast.walk(st):
            if isinstance(n, ast.Name):
                d = stores if isinstance(n.ctx, (ast.Store, ast.Del)) else loads
                d[n.id] = d.get(n.id, 0) + 1
            elif isinstance(n, ast.ExceptHandler) and n.name:
                stores[n.name] = stores.get(n.name, 0) + 1
            elif isinstance(n, (ast.Global, ast.Nonlocal)):
                for x in n.names:
                    stores[x] = stores.get(x, 0) + 2
    return stores, loads


def _inline_in_block(block, stores, loads, params):
    """one pass over a block; returns (new block, changed)"""
    out, k, changed = [], 0, False
    while k < len(block):
        st = block[k]
        nxt = block[k + 1] if k + 1 < len(block) else None
        if (isinstance(st, ast.Assign) and len(st.targets) == 1 and isinstance(st.targets[0], ast.Name)
                and isinstance(nxt, (ast.Expr, ast.Assign, ast.Return))):
            x = st.targets[0].id
            if x not in params and stores.get(x, 0) == 1 and loads.get(x, 0) == 1:
                seq = list(_eval_order(nxt))
                pos = next((i for i, (kind, n) in enumerate(seq) if kind == "node" and isinstance(n, ast.Name)
                            and n.id == x and isinstance(n.ctx, ast.Load)), None)
                if pos is not None and all(kind == "node" and isinstance(n, (ast.Name, ast.Attribute, ast.Constant))
                                           and not (isinstance(n, ast.Name) and isinstance(n.ctx, ast.Store))
                                           for kind, n in seq[:pos]):
                    target = seq[pos][1]

                    class R(ast.NodeTransformer):
                        def visit_Name(self, n):
                            return st.value if n is target else n
                    out.append(R().visit(nxt))
                    k += 2
                    changed = True
                    continue
        out.append(st)
        k += 1
    return out, changed


def _blocks_of(st):
    for f in ("body", "orelse", "finalbody"):
        b = getattr(st, f, None)
        if isinstance(b, list) and b and isinstance(b[0], ast.stmt):
            yield f
    if isinstance(st, ast.Try):
        pass


def _norm_block(block):
    out = []
    for st in block:
        if isinstance(st, ast.AnnAssign):
            if st.value is None:
                continue                                   # a bare annotation binds nothing
            st = ast.Assign(targets=[st.target], value=st.value)
        st = _ifexp_stmt(st)
        for f in _blocks_of(st):
            setattr(st, f, _norm_block(getattr(st, f)))
        if isinstance(st, ast.Try):
            for h in st.handlers:
                h.body = _norm_block(h.body)
        if isinstance(st, ast.For) and isinstance(st.iter, ast.Call) and isinstance(st.iter.func, ast.Attribute) \
                and st.iter.func.attr == "keys" and not st.iter.args and not st.iter.keywords:
            st.iter = st.iter.func.value
        # else after a branch that cannot fall through
        if isinstance(st, ast.If) and st.orelse and st.body and isinstance(st.body[-1], TERMINATORS):
            rest = st.orelse
            st.orelse = []
            out.append(st)
            out.extend(rest)
            continue
        out.append(st)
    return out


def _inline_everywhere(stmts, params):
    """inline single-use locals, every block, until nothing changes"""
    for _ in range(50):
        stores, loads = _count_names(stmts)
        changed = [False]

        def go(block):
            block, ch = _inline_in_block(block, stores, loads, params)
            if ch:
                changed[0] = True
                return block                                # recount before going on
            for st in block:
                for f in _blocks_of(st):
                    setattr(st, f, go(getattr(st, f)))
                    if changed[0]:
                        return block
                if isinstance(st, ast.Try):
                    for h in st.handlers:
                        h.body = go(h.body)
                        if changed[0]:
                            return block
            return block
        stmts = go(stmts)
        if not changed[0]:
            break
    return stmts


def strip_doc(stmts):
    if stmts and isinstance(stmts[0], ast.Expr) and isinstance(stmts[0].value, ast.Constant) and isinstance(stmts[0].value.value, str):
        return stmts[1:]
    return stmts


def normalise_block(stmts, params=()):
    stmts = [copy.deepcopy(s) for s in strip_doc(list(stmts))]
    stmts = [_Expr().visit(s) for s in stmts]
    stmts = _norm_block(stmts)
    stmts = _inline_everywhere(stmts, set(params))
    stmts = [_Expr().visit(s) for s in stmts]              # f-strings produced by inlining etc. get their canonical spelling
    for s in stmts:
        ast.fix_missing_locations(s)
    return stmts


# ------------------------------------------------------------------ alpha renaming of locals
def locals_in_order(stmts, params):
    seen = []

    def add(x):
        if x not in params and x not in seen:
            seen.append(x)

    class V(ast.NodeVisitor):
        def visit_Name(self, n):
            if isinstance(n.ctx, (ast.Store, ast.Del)):
                add(n.id)

        def visit_ExceptHandler(self, n):
            if n.type is not None:
                self.visit(n.type)
            if n.name:
                add(n.name)
            for s in n.body:
                self.visit(s)
    for s in stmts:
        V().visit(s)
    return seen


def rename_locals(stmts, params, ref_locals):
    """locals renamed, by order of first binding, to `ref_locals`; returns (stmts, note) — note says what was done"""
    have = locals_in_order(stmts, params)
    if have == list(ref_locals):
        return stmts, None
    if len(have) != len(ref_locals):
        return stmts, "binds %d locals %s, today's code %d %s: not renamed" % (len(have), have, len(ref_locals), list(ref_locals))
    used = set(params)
    for s in stmts:
        for n in ast.walk(s):
            if isinstance(n, ast.Name) and n.id not in have:
                used.add(n.id)
    if any(r in used for r in ref_locals):
        return stmts, "a canonical local name is used as a parameter/global: not renamed"
    m = dict(zip(have, ref_locals))

    class R(ast.NodeTransformer):
        def visit_Name(self, n):
            if n.id in m:
                return ast.copy_location(ast.Name(id=m[n.id], ctx=n.ctx), n)
            return n

        def visit_ExceptHandler(self, n):
            self.generic_visit(n)
            if n.name in m:
                n.name = m[n.name]
            return n
    return [R().visit(s) for s in stmts], "locals renamed %s" % m


def normalise_function(fn, ref_locals=None):
    """a copy of `fn` in canonical shape (annotations dropped, body normalised, locals renamed to `ref_locals`)"""
    fn = copy.deepcopy(fn)
    a = fn.args
    for x in a.posonlyargs + a.args + a.kwonlyargs + ([a.vararg] if a.vararg else []) + ([a.kwarg] if a.kwarg else []):
        x.annotation = None
    fn.returns = None
    params = [x.arg for x in a.posonlyargs + a.args + a.kwonlyargs] + ([a.vararg.arg] if a.vararg else []) + ([a.kwarg.arg] if a.kwarg else [])
    body = normalise_block(fn.body, params)
    note = None
    if ref_locals is not None:
        body, note = rename_locals(body, params, ref_locals)
    fn.body = body or [ast.Pass()]
    ast.fix_missing_locations(fn)
    return fn, note
