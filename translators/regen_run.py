#!/venv/bin/python
"""C20 (second pass) translator step: actually RE-RUN the regeneration of the bindings, offline, in a scratch copy.

    regen_run.py [REPO]          (default $VERIF_REPO or /repo)  -> prints the stage timings and a summary

What is executed is the library's OWN script, unmodified: a private copy of the `neuroml` package is made in a
`tempfile.mkdtemp()` directory (never inside REPO, removed afterwards), WITHOUT the shipped `nml.py`, and

    cd <tmp>/neuroml/nml && bash regenerate-nml.sh -a

is run with PATH = <shims>:<venv bin>:$PATH.  The script therefore does what it does for a maintainer:
generateDS (with generateds_config.py -> config.py -> name table, helper_methods.py, the custom imports template,
the XSD selected by its grep|cut|tr pipeline), the two `sed -i` import corrections, `python3 -m
neuroml.nml.annotate_nml` (imports the FRESH nml.py, writes sed-script.txt), `sed -i -f sed-script.txt`, `ruff
format`.  The shims only take snapshots (they exec the real tool with the same arguments):

    generateDS  -> after the real generateDS wrote nml.py: copy to nml.py.stage0      (raw generateDS output)
    ruff        -> before the real ruff runs:               copy to nml.py.stage1      (after both sed steps)

so that the effect of the post-processing steps on the user statements can be stated (and kernel-checked) as a fact.

Then every stage and the shipped file are read as tables (class, bases, [(member name, normalised-AST digest)]) with
the SAME normalisation as helpers_extract (docstrings of defs removed, `ast.dump` without positions) and

  N1  generateDS version drift.  The shipped file was written by the generateDS version named in its header; the
      installed one may be newer.  2.44.1 -> 2.44.3 differ, on this schema, in exactly one generated statement: the
      `validate_` method of every class with a (schema) base class gets the extra last-but-one statement
      `<Class>.superclass.validate_(self, gds_collector, recursive)`.  When (and only when) header version and installed
      version differ, exactly that statement (AST-matched: Expr(Call(Attribute(Attribute(Name <own class>),
      'superclass'), 'validate_'), [self, gds_collector, recursive])) is removed from the REGENERATED side, and the
      number of removals is recorded (it must equal the number of classes with a base class).  Nothing else is
      normalised for version drift; any further difference shows up as a broken comparison.
  N2  module-level `import` statements are compared as sorted lists of single-alias imports (the repository's
      pre-commit hook `ruff --select I --fix` re-orders the import block of the committed file; regenerate-nml.sh
      does not); every other module-level statement is compared in order.
"""
import ast
import hashlib
import os
import re
import shutil
import subprocess
import sys
import tempfile
import time

HERE = os.path.dirname(os.path.abspath(__file__))
sys.path.insert(0, HERE)
import helpers_extract as HX  # noqa: E402

COPY_IGNORE = shutil.ignore_patterns("__pycache__", "*.pyc", "test", "examples", "*.h5", "*.nml", "nml.py", "*.orig",
                                     "*.rej")
BOUNDARY = "_buildChildren"


def venv_bin():
    return os.path.dirname(os.path.abspath(sys.executable))


def inputs_digest(repo):
    """content hash of everything the regeneration reads (the whole package except nml.py, tests, examples)"""
    h = hashlib.sha256()
    root = os.path.join(repo, "neuroml")
    for dp, dn, fn in os.walk(root):
        dn[:] = sorted(d for d in dn if d not in ("__pycache__", "test", "examples"))
        for f in sorted(fn):
            if f.endswith((".pyc", ".h5", ".nml", ".orig", ".rej")) or (f == "nml.py" and dp.endswith("nml")):
                continue
            p = os.path.join(dp, f)
            h.update(os.path.relpath(p, root).encode() + b"\0")
            try:
                with open(p, "rb") as fh:
                    h.update(fh.read())
            except OSError:
                h.update(b"<unreadable>")
            h.update(b"\0")
    return h.hexdigest()


def _write_shim(path, body):
    with open(path, "w") as fh:
        fh.write("#!/bin/bash\n" + body)
    os.chmod(path, 0o755)


def make_tree(repo, root):
    """private copy of the package (without nml.py) + shims; returns (nml_dir, shim_dir)"""
    shutil.copytree(os.path.join(repo, "neuroml"), os.path.join(root, "neuroml"), ignore=COPY_IGNORE, symlinks=False)
    shim = os.path.join(root, "_shim")
    os.makedirs(shim)
    vb = venv_bin()
    real_gds = os.path.join(vb, "generateDS")
    if not os.path.exists(real_gds):
        real_gds = shutil.which("generateDS") or ""
    real_ruff = os.path.join(vb, "ruff")
    if not os.path.exists(real_ruff):
        real_ruff = shutil.which("ruff") or ""
    if real_gds:
        _write_shim(os.path.join(shim, "generateDS"),
                    '"%s" "$@"\nrc=$?\nif [ -f nml.py ] && [ ! -f nml.py.stage0 ]; then cp nml.py nml.py.stage0; fi\nexit $rc\n'
                    % real_gds)
    if real_ruff:
        _write_shim(os.path.join(shim, "ruff"),
                    'if [ -f nml.py ] && [ ! -f nml.py.stage1 ]; then cp nml.py nml.py.stage1; fi\nexec "%s" "$@"\n' % real_ruff)
    return os.path.join(root, "neuroml", "nml"), shim, bool(real_gds), bool(real_ruff)


def run_script(nml_dir, shim, args=("-a",), timeout=900):
    env = dict(os.environ)
    env["PATH"] = shim + os.pathsep + venv_bin() + os.pathsep + env.get("PATH", "")
    env["PYTHONPATH"] = ""
    env["PYTHONDONTWRITEBYTECODE"] = "1"
    env.pop("COVERAGE_PROCESS_START", None)
    p = subprocess.run(["bash", "regenerate-nml.sh"] + list(args), cwd=nml_dir, env=env, stdout=subprocess.PIPE,
                       stderr=subprocess.STDOUT, text=True, timeout=timeout)
    return p.returncode, p.stdout


def installed_generateds_version():
    exe = os.path.join(venv_bin(), "generateDS")
    try:
        p = subprocess.run([exe, "--version"], stdout=subprocess.PIPE, stderr=subprocess.STDOUT, text=True, timeout=60)
        m = re.search(r"version\s+([\w.]+)", p.stdout)
        return m.group(1).rstrip(".") if m else ""
    except Exception:  # noqa
        return ""


def regenerate(repo, only_generateds=False, overrides=None):
    """-> {"ok", "why", "log", "stage0", "stage1", "final", "seconds", "name_table", "ruff", "installed_version"}
    `only_generateds`: stop after the raw generateDS output (used for cheap what-if runs: 2 s instead of 25 s) — this
    runs the script's generateDS command line only (extracted by helpers_extract.extract_script).
    `overrides`: {relative path under neuroml/: text} written into the private copy before running"""
    t0 = time.time()
    root = tempfile.mkdtemp(prefix="verif_c20_regen_")
    out = {"ok": False, "why": "", "log": "", "stage0": None, "stage1": None, "final": None, "seconds": 0.0,
           "installed_version": installed_generateds_version(), "ruff": False}
    try:
        nml_dir, shim, has_gds, has_ruff = make_tree(repo, root)
        out["ruff"] = has_ruff
        for rel, text in (overrides or {}).items():
            with open(os.path.join(root, "neuroml", rel), "w") as fh:
                fh.write(text)
        if not has_gds:
            out["why"] = "generateDS is not installed next to %s" % sys.executable
            return out
        if only_generateds:
            text = open(os.path.join(nml_dir, "regenerate-nml.sh")).read()
            cmds = [ln.strip() for ln in text.split("\n") if re.search(r"(^|\s)generateDS\s+-", ln)
                    and not re.search(r"generateDS\s+--version\s*$", ln)]
            if len(cmds) != 1:
                out["why"] = "regenerate-nml.sh: %d generateDS invocations" % len(cmds)
                return out
            lines = [ln for ln in text.split("\n") if re.match(r"^(NEUROML_VERSION|SCHEMA_FILE)=", ln)]
            env = dict(os.environ)
            env["PATH"] = shim + os.pathsep + venv_bin() + os.pathsep + env.get("PATH", "")
            env["PYTHONPATH"] = ""
            env["PYTHONDONTWRITEBYTECODE"] = "1"
            p = subprocess.run(["bash", "-c", "\n".join(lines + cmds)], cwd=nml_dir, env=env, stdout=subprocess.PIPE,
                               stderr=subprocess.STDOUT, text=True, timeout=600)
            rc, log = p.returncode, p.stdout
        else:
            rc, log = run_script(nml_dir, shim)
        out["log"] = log[-4000:]
        for k, f in (("stage0", "nml.py.stage0"), ("stage1", "nml.py.stage1"), ("final", "nml.py")):
            p = os.path.join(nml_dir, f)
            if os.path.exists(p):
                out[k] = open(p).read()
        nt = os.path.join(nml_dir, "name_table.csv")
        out["name_table"] = open(nt).read() if os.path.exists(nt) else None
        if out["stage1"] is None and out["final"] is not None and not has_ruff:
            out["stage1"] = out["final"]        # no ruff: the script leaves the sed output as the final file
        if rc != 0:
            out["why"] = "regenerate-nml.sh exited %s: %s" % (rc, log.strip().split("\n")[-1][:200])
        elif out["stage0"] is None:
            out["why"] = "generateDS wrote no nml.py: %s" % (log.strip().split("\n")[-1][:200])
        elif not only_generateds and out["final"] is None:
            out["why"] = "the script left no nml.py"
        else:
            out["ok"] = True
        return out
    except subprocess.TimeoutExpired:
        out["why"] = "regeneration timed out"
        return out
    finally:
        out["seconds"] = round(time.time() - t0, 2)
        shutil.rmtree(root, ignore_errors=True)


# ------------------------------------------------------------------------------------------------ tables
def is_drift_stmt(stmt, cls):
    """N1: `<cls>.superclass.validate_(self, gds_collector, recursive)`"""
    if not (isinstance(stmt, ast.Expr) and isinstance(stmt.value, ast.Call)):
        return False
    c = stmt.value
    f = c.func
    return (isinstance(f, ast.Attribute) and f.attr == "validate_" and isinstance(f.value, ast.Attribute)
            and f.value.attr == "superclass" and isinstance(f.value.value, ast.Name) and f.value.value.id == cls
            and not c.keywords and [ast.dump(a) for a in c.args] ==
            [ast.dump(ast.Name(id=x, ctx=ast.Load())) for x in ("self", "gds_collector", "recursive")])


def strip_drift(cls_node):
    """remove the N1 statement from the top level of the body of `validate_` of one class; returns #removed"""
    n = 0
    for s in cls_node.body:
        if isinstance(s, ast.FunctionDef) and s.name == "validate_":
            keep = [x for x in s.body if not is_drift_stmt(x, cls_node.name)]
            n += len(s.body) - len(keep)
            s.body = keep or [ast.Pass()]
    return n


def base_names(cls_node):
    return [ast.unparse(b) for b in cls_node.bases]


def file_table(text, drift=False):
    """-> {"classes": [{"name","bases","members":[(name,digest,stmt)]}], "module": [(name,digest,stmt)],
           "imports": sorted [str], "drift_removed": n, "with_base": n}"""
    tree = ast.parse(text)
    classes, module, removed, with_base = [], [], 0, 0
    for n in tree.body:
        if isinstance(n, (ast.Import, ast.ImportFrom)):
            continue
        if isinstance(n, ast.ClassDef):
            if drift:
                removed += strip_drift(n)
            has_sup = any(isinstance(s, ast.Assign) and HX.assigned_names(s) == ["superclass"]
                          and not (isinstance(s.value, ast.Constant) and s.value.value is None) for s in n.body)
            with_base += 1 if has_sup else 0
            classes.append({"name": n.name, "bases": base_names(n), "members": HX.items_of(list(n.body)),
                            "decorators": [ast.unparse(d) for d in n.decorator_list],
                            "keywords": [ast.unparse(k) for k in n.keywords]})
            module.append(("class " + n.name, 0, n))
        else:
            module.append((HX.item_name(n), HX.digest_of(HX.norm_dump(n)), n))
    return {"classes": classes, "module": module, "imports": sorted(HX.import_lines(tree)), "drift_removed": removed,
            "with_base": with_base}


def user_part(members):
    """members after the (last) `_buildChildren`"""
    idx = [i for i, m in enumerate(members) if m[0] == BOUNDARY]
    return members[idx[-1] + 1:] if idx else []


def compare_tables(regen, shipped):
    """-> list of differences {"kind", "class", "member", "index", ...} between two file tables (regen = expected)"""
    out = []
    rn, sn = [c["name"] for c in regen["classes"]], [c["name"] for c in shipped["classes"]]
    rmap = {c["name"]: c for c in regen["classes"]}
    for c in shipped["classes"]:
        if c["name"] not in rmap:
            out.append({"kind": "class-only-in-bindings", "class": c["name"], "member": None})
            continue
        r = rmap[c["name"]]
        if r["bases"] != c["bases"] or r["decorators"] != c["decorators"] or r["keywords"] != c["keywords"]:
            out.append({"kind": "class-header", "class": c["name"], "member": None,
                        "regenerated": "class %s(%s)" % (c["name"], ", ".join(r["bases"] + r["keywords"])),
                        "shipped": "class %s(%s)" % (c["name"], ", ".join(c["bases"] + c["keywords"]))})
        for d in HX.compare_items(r["members"], c["members"]):
            e = {"kind": d["kind"], "class": c["name"], "member": d["method"], "index": d["index"]}
            if d["kind"] == "differs":
                fd = d.get("first_difference") or {}
                e["first_difference"] = {"where": fd.get("where"), "regenerated": fd.get("helper"),
                                         "shipped": fd.get("shipped")}
            elif d["kind"] == "order":
                e["expected_order"], e["shipped_order"] = d["expected_order"], d["shipped_order"]
            elif d["kind"] == "missing-in-bindings":
                e["regenerated"] = d.get("helper")
            else:
                e["shipped"] = d.get("shipped")
            out.append(e)
    for x in rn:
        if x not in sn:
            out.append({"kind": "class-missing-in-bindings", "class": x, "member": None})
    for d in HX.compare_items(regen["module"], shipped["module"]):
        e = {"kind": "module-" + d["kind"], "class": None, "member": d["method"], "index": d["index"]}
        if d["kind"] == "differs":
            fd = d.get("first_difference") or {}
            e["first_difference"] = {"where": fd.get("where"), "regenerated": fd.get("helper"), "shipped": fd.get("shipped")}
        out.append(e)
    for x in sorted(set(shipped["imports"]) - set(regen["imports"])):
        out.append({"kind": "import-only-in-bindings", "class": None, "member": x})
    for x in sorted(set(regen["imports"]) - set(shipped["imports"])):
        out.append({"kind": "import-missing-in-bindings", "class": None, "member": x})
    return out


# ------------------------------------------------------------------------------------------------ full data + Lean
def user_rows(table):
    return [(c["name"], user_part(c["members"])) for c in table["classes"]]


def build_full(repo, memo=None):
    """run (or reuse: `memo` dict keyed by the content hash of the regeneration inputs) the regeneration and read all
    stages + the shipped file as tables. -> dict with "ok", "gaps", "regen", "shipped", "raw_user", "sed_user", ..."""
    key = inputs_digest(repo)
    r = memo.get(("run", key)) if memo is not None else None
    reused = r is not None
    if r is None:
        r = regenerate(repo)
        if memo is not None:
            for k in [k for k in memo if k[0] in ("run", "tables") and k[1] != key]:
                del memo[k]
            memo[("run", key)] = r
    gaps = []
    shipped_text = open(os.path.join(repo, "neuroml", "nml", "nml.py")).read()
    hv = HX.parse_header(shipped_text, [])["generateds_version"]
    out = {"ok": r["ok"], "why": r["why"], "seconds": r["seconds"], "reused": reused, "log": r["log"], "inputs": key,
           "header_version": hv, "installed_version": r["installed_version"], "ruff": r["ruff"], "gaps": gaps,
           "texts": {"final": r["final"], "stage0": r["stage0"], "stage1": r["stage1"]}}
    empty = {"classes": [], "module": [], "imports": [], "drift_removed": 0, "with_base": 0}
    sk = ("shipped", hashlib.sha1(shipped_text.encode()).hexdigest())
    if memo is not None and sk in memo:
        out["shipped"] = memo[sk]
    else:
        out["shipped"] = file_table(shipped_text)
        if memo is not None:
            for k in [k for k in memo if k[0] == "shipped"]:
                del memo[k]
            memo[sk] = out["shipped"]
    if not r["ok"]:
        gaps.append("the regeneration could not be re-run: %s" % r["why"])
        out.update({"regen": empty, "raw_user": [], "sed_user": [], "drift": False})
        return out
    drift = hv != r["installed_version"]
    tk = ("tables", key, drift)
    if memo is not None and tk in memo:
        reg, raw, sed = memo[tk]
    else:
        try:
            reg = file_table(r["final"], drift=drift)
            raw = user_rows(file_table(r["stage0"]))
            sed = user_rows(file_table(r["stage1"])) if r["stage1"] is not None else None
        except SyntaxError as e:
            gaps.append("a regenerated stage does not parse: %r" % (e,))
            out.update({"ok": False, "regen": empty, "raw_user": [], "sed_user": [], "drift": drift})
            return out
        if memo is not None:
            memo[tk] = (reg, raw, sed)
    if sed is None:
        gaps.append("no snapshot before `ruff format` (stage 1) was taken")
        sed = []
    out.update({"regen": reg, "raw_user": raw, "sed_user": sed, "drift": drift})
    return out


def _items(I, its):
    return "[" + ", ".join("⟨%d, %d⟩" % (I(m[0]), m[1]) for m in its) + "]"


def _file_lean(I, ns, table, doc):
    L = ["import NmlVerif.Model.Regen", "/-! GENERATED by translators/regen_run.py on every `bin/check C20` — do not edit.",
         "    " + doc + " -/", "namespace NmlVerif.Gen." + ns, "open NmlVerif.Regen", ""]
    for i, c in enumerate(table["classes"]):
        L.append("def c%d : ClassRow := ⟨%d, [%s], %s⟩" % (i, I(c["name"]), ", ".join(str(I(b)) for b in c["bases"]),
                                                            _items(I, c["members"])))
    L.append("")
    L.append("def classes : List ClassRow := [%s]" % ", ".join("c%d" % i for i in range(len(table["classes"]))))
    mod = table["module"]
    for j in range(0, len(mod), 40):
        L.append("def m%d : List (Item Nat) := %s" % (j // 40, _items(I, mod[j:j + 40])))
    L.append("def moduleItems : List (Item Nat) := %s" % (" ++ ".join("m%d" % k for k in range((len(mod) + 39) // 40)) or "[]"))
    L.append("def imports : List Nat := [%s]" % ", ".join(str(I(x)) for x in table["imports"]))
    L.append("def table : FileTable := ⟨classes, moduleItems, imports⟩")
    return L


def _rows_lean(I, name, rows):
    L = []
    ne = [(c, its) for c, its in rows]
    L.append("def %s : List (Nat × List (Item Nat)) := [" % name)
    L.append(",\n".join("  (%d, %s)" % (I(c), _items(I, its)) for c, its in ne) + "]")
    return L


def emit_fresh(full, I):
    L = _file_lean(I, "RegenFresh", full["regen"],
                   "The bindings file the library's own regenerate-nml.sh produces NOW (re-run in a scratch copy), "
                   "normalisations N1/N2 of regen_run.py applied; plus what the intermediate stages looked like.")
    L.append("")
    L += _rows_lean(I, "rawUser", full["raw_user"])
    L += _rows_lean(I, "sedUser", full["sed_user"])
    L.append("")
    L.append("def info : RegenMeta where")
    L.append("  boundary := %d" % I(BOUNDARY))
    L.append("  headerVersion := " + HX.lean_str(full["header_version"]))
    L.append("  installedVersion := " + HX.lean_str(full["installed_version"]))
    L.append("  driftRemoved := %d" % full["regen"]["drift_removed"])
    L.append("  withBase := %d" % full["regen"]["with_base"])
    L.append("  rawUser := rawUser")
    L.append("  sedUser := sedUser")
    L.append("")
    L.append("end NmlVerif.Gen.RegenFresh")
    return "\n".join(L) + "\n"


def emit_shipped(full, I):
    L = _file_lean(I, "RegenShipped", full["shipped"], "The shipped neuroml/nml/nml.py, every class body in full.")
    L.append("")
    L.append("end NmlVerif.Gen.RegenShipped")
    return "\n".join(L) + "\n"


def emit_names(I):
    L = ["/-! GENERATED by translators/helpers_extract.py + regen_run.py — the interned names (driver / reading only). -/",
         "namespace NmlVerif.Gen.RegenNames",
         "def names : Array String := #[\n  " + ",\n  ".join(
             ", ".join(HX.lean_str(n) for n in I.names[i:i + 6]) for i in range(0, len(I.names), 6)) + "]",
         "end NmlVerif.Gen.RegenNames"]
    return "\n".join(L) + "\n"


def main(argv):
    repo = argv[1] if len(argv) > 1 else os.environ.get("VERIF_REPO", "/repo")
    r = regenerate(repo)
    print("regeneration ok=%s why=%r seconds=%s installed generateDS=%s ruff=%s" % (
        r["ok"], r["why"], r["seconds"], r["installed_version"], r["ruff"]))
    if not r["ok"]:
        print(r["log"][-1500:])
        return 1
    shipped_text = open(os.path.join(repo, "neuroml", "nml", "nml.py")).read()
    hv = HX.parse_header(shipped_text, [])["generateds_version"]
    drift = hv != r["installed_version"]
    t = time.time()
    reg = file_table(r["final"], drift=drift)
    shp = file_table(shipped_text)
    print("tables in %.1fs: %d/%d classes, %d/%d members, drift(%s->%s) removed %d (classes with a base: %d)" % (
        time.time() - t, len(reg["classes"]), len(shp["classes"]), sum(len(c["members"]) for c in reg["classes"]),
        sum(len(c["members"]) for c in shp["classes"]), hv, r["installed_version"], reg["drift_removed"], reg["with_base"]))
    diffs = compare_tables(reg, shp)
    print("%d differences" % len(diffs))
    for d in diffs[:20]:
        print(" ", {k: v for k, v in d.items() if k != "stmt"})
    return 1 if diffs else 0


if __name__ == "__main__":
    sys.exit(main(sys.argv))
