"""Effect-skeleton translator for property C08 (DESIGN.md §4.4, second bullet).

Reads the CURRENT working tree of the repository (Python `ast`, nothing is imported or executed) and extracts,
for each reader/writer entry point, the control-flow skeleton around the calls from the library into the file
layer, as a term of `NmlVerif.Fault.Stmt` (lean/NmlVerif/Model/Fault.lean):

    Stmt ::= skip | call eff site | raise_ kind site | reraise site | mayRaise oid site | mutate f site | restore f
           | seq a b | loop oid body | choice oid a b | tryFinally site body fin
           | tryExcept site body kinds catchAll handler | scope body | ret | unsupported site
    eff  ::= open_ h | close h | io (createGroup | createArray | setAttr | write | readNode | export)

Rules (deliberately simple and syntactic; the result is validated on every run by the fault-injection
correspondence of harness/props/c08.py, which labels every real file-layer call with the site found here):

* a simple statement is scanned in evaluation order.  Recognised file-layer calls become `call`; calls to helper
  functions/methods of the extracted modules that can be resolved (same class, named class, receiver whose class
  is known from a constructor call / a generateDS member list) are expanded (`scope`), up to MAX_DEPTH; each distinct
  (function, context) body is emitted once as a shared `def` of the generated file; recursion is unrolled UNROLL deep
  (default 1 = never recursively; `parse_group` 3); in the generated bindings (nml.py) and the optimized containers only
  `exportHdf5` is expanded; every other call that is not on the small PURE / NOFILE lists, and every read through a
  name bound to a file-layer object, is emitted CONSERVATIVELY as `opaque`: any number of file-layer calls followed by
  a possible raise.  Calls to the writer entry points from another skeleton are opaque (their target there is an
  in-memory buffer); loader entry points are expanded like any other function.  Nothing is skipped
  except statements taken not to raise (assignments to local names of constants, names, attributes of plain
  objects; imports, `pass`, docstrings); a statement
  or `if`/`for` head without any call still gets a raise point (`mayRaise`).
* `X.f = []`-like assignments through a name derived from the document argument are `mutate f`; a later
  `X.f.append(..)` / `X.f = ..` (or a `for` whose body is only that) is `restore f`; any other assignment through a
  document-derived name is a `mutate` that is never restored.
* entry points are analysed at the argument specialisations of ENTRIES (defaults; `close=False` with a caller-owned
  file object; `embed_xml=False`; optimized containers; `include_includes=True`) and with `isinstance(p, T)` decided
  when `p` is annotated `T` (or overridden by the specialisation); other `if`s are `choice`.
* understood rewrites (second pass): `x = A if T else B` / `return A if T else B` read as if/else; `f = h5file` gives the
  handle a second name; `with h5file:` on a handle opened before and `with closing(open(..))`;
  `h = None; try: h = open(..); ... finally: if h [is not None]: h.close()` is read as open followed by try/finally.
* anything the model cannot express (break/continue, several handlers, try/else, for/else, non-file context
  managers, yield, match, a file-layer call under a short-circuit/comprehension) is `unsupported`, which is never
  protected.

`extract(repo)` returns a dict (entries, sites, funcs, gaps); `emit_lean(res)` renders Gen/Skeletons.lean.
"""
import ast
import copy
import os

MAX_DEPTH = 12
# nested activations of one function that are expanded (default 1 = never recursively); the HDF5 layout written by
# the library nests groups three deep (neuroml / network / population_x); a deeper group is un-expanded code
UNROLL = {("hdf5parser", "NeuroMLHdf5Parser", "parse_group"): 3}

MODULES = {
    "writers": "neuroml/writers.py",
    "loaders": "neuroml/loaders.py",
    "hdf5parser": "neuroml/hdf5/NeuroMLHdf5Parser.py",
    "hdf5init": "neuroml/hdf5/__init__.py",
    "netcontainer": "neuroml/hdf5/NetworkContainer.py",
    "nml": "neuroml/nml/nml.py",
}

# (entry id, display name, module, class, function, env overrides)
ENTRIES = [
    (1, "NeuroMLWriter.write", "writers", "NeuroMLWriter", "write", {}),
    (2, "NeuroMLHdf5Writer.write", "writers", "NeuroMLHdf5Writer", "write", {}),
    (3, "ArrayMorphWriter.write", "writers", "ArrayMorphWriter", "write", {}),
    (4, "NeuroMLHdf5Loader.load", "loaders", "NeuroMLHdf5Loader", "load", {}),
    (5, "NeuroMLHdf5Loader.load[optimized]", "loaders", "NeuroMLHdf5Loader", "load", {"optimized": True}),
    (6, "ArrayMorphLoader.load", "loaders", "ArrayMorphLoader", "load", {}),
    (7, "NeuroMLLoader.load", "loaders", "NeuroMLLoader", "load", {}),
    # second pass: non-default keyword arguments, caller-owned file objects, optimized containers, module functions
    (8, "NeuroMLWriter.write[fileobj,close=False]", "writers", "NeuroMLWriter", "write",
     {"close": False, "__isinstance__": {("file", "str"): False}}),
    (9, "NeuroMLHdf5Writer.write[embed_xml=False]", "writers", "NeuroMLHdf5Writer", "write", {"embed_xml": False}),
    (10, "NeuroMLHdf5Writer.write[containers]", "writers", "NeuroMLHdf5Writer", "write",
     {"__members__": {("Network", "populations"): ("netcontainer", "PopulationContainer"),
                      ("Network", "projections"): ("netcontainer", "ProjectionContainer"),
                      ("Network", "input_lists"): ("netcontainer", "InputListContainer")}}),
    (11, "read_neuroml2_file", "loaders", None, "read_neuroml2_file", {}),
    (12, "read_neuroml2_file[include_includes]", "loaders", None, "read_neuroml2_file", {"include_includes": True}),
    (13, "read_neuroml2_string", "loaders", None, "read_neuroml2_string", {}),
]
# functions that count as entry points when called from another skeleton (never expanded)
# (the writers: their target inside another skeleton is an in-memory buffer, not the file layer; the loaders are
# expanded like any other function, recursion being cut by UNROLL)
ENTRY_FUNCS = {("writers", "NeuroMLWriter", "write"), ("writers", "NeuroMLHdf5Writer", "write"),
               ("writers", "ArrayMorphWriter", "write")}

# the only methods of the generated bindings (nml.py) that are expanded
NML_EXPAND = {"exportHdf5"}

PURE_BUILTINS = {"isinstance", "len", "str", "int", "float", "bool", "range", "enumerate", "type", "repr", "print",
                 "hasattr", "getattr", "list", "dict", "tuple", "set"}
PURE_DOTTED = {"io.StringIO", "StringIO.StringIO", "tables.Filters", "numpy.zeros", "os.path.dirname",
               "os.path.abspath"}

# library functions that can raise but never call into the file layer (checked on every run: a file-layer call
# made from such a site has no counterpart in the skeleton and is reported)
NOFILE_DOTTED = {"inspect.getfullargspec", "inspect.getargspec"}

OPEN_FUNCS = {"tables.open_file", "open_file", "open", "tables.openFile"}
IO_METHODS = {"create_group": "createGroup", "create_array": "createArray", "create_carray": "createArray",
              "create_earray": "createArray", "create_table": "createArray",
              "_f_setattr": "setAttr", "set_node_attr": "setAttr", "_v_attrs.__setattr__": "setAttr"}
LIST_MUTATORS = {"append", "extend", "insert", "remove", "pop", "clear"}

EXC_KINDS = {"OSError": 1, "IOError": 1, "EnvironmentError": 1, "FileNotFoundError": 1, "AttributeError": 2,
             "ImportError": 3, "ModuleNotFoundError": 3, "TypeError": 4, "ValueError": 5, "KeyError": 6}
CATCH_ALL = {"Exception", "BaseException"}

EFF_CODE = {"open": 0, "close": 1, "createGroup": 2, "createArray": 3, "setAttr": 4, "write": 5, "readNode": 6,
            "export": 7}


def dotted(node):
    parts = []
    while isinstance(node, ast.Attribute):
        parts.append(node.attr)
        node = node.value
    if isinstance(node, ast.Name):
        parts.append(node.id)
        return ".".join(reversed(parts))
    return None


def root_name(node):
    while isinstance(node, (ast.Attribute, ast.Subscript, ast.Call)):
        node = node.func if isinstance(node, ast.Call) else node.value
    return node.id if isinstance(node, ast.Name) else None


class Mod:
    def __init__(self, key, rel, tree):
        self.key, self.rel, self.tree = key, rel, tree
        self.classes = {}
        self.funcs = {}
        for n in tree.body:
            if isinstance(n, ast.ClassDef):
                self.classes[n.name] = n
            elif isinstance(n, ast.FunctionDef):
                self.funcs[n.name] = n

    def method(self, cls, name):
        c = self.classes.get(cls)
        if c is None:
            return None
        for n in c.body:
            if isinstance(n, ast.FunctionDef) and n.name == name:
                return n
        return None


class Ctx:
    """per expanded function"""

    def __init__(self, mod, cls, fn, depth, stack):
        self.mod, self.cls, self.fn, self.depth, self.stack = mod, cls, fn, depth, stack
        self.tracked = set()    # names bound to file-layer objects (handles, groups, arrays, attribute sets)
        self.handles = {}       # name -> handle id
        self.doc = set()        # names derived from the document argument
        self.types = {}         # name -> (modkey, class)
        self.env = {}           # name -> constant
        self.annot = {}         # name -> annotation source
        self.detached = {}      # (root, field) currently detached -> field id
        self.exc_names = []     # names bound by enclosing `except ... as e`
        self.isinst = {}        # (name, class) -> bool: `isinstance` tests decided by the specialisation
        self.maybe_none = {}    # name -> handle id: `h = None` ... `h = open(..)` first thing in a try (see stmt)
        self.qual = (cls + "." if cls else "") + fn.name


class Extractor:
    def __init__(self, repo):
        self.repo = repo
        self.mods = {}
        self.gaps = []
        self.sites = {}          # site id -> info
        self.site_key = {}       # (rel, lo) -> site id
        self.oid_key = {}
        self.funcs = {}          # (rel, qualname) -> list of statement records
        self.fields = {}
        self.hids = {}
        self.member_types = None
        self.member_over = {}    # (class, member) -> (modkey, class): specialisation of the entry being extracted
        self.memo = {}           # inline signature -> index into self.defs
        self.defs = []           # shared bodies of expanded functions: (name, term)
        self.desugared = {}      # id(original statement) -> its rewritten form (one rewrite per statement)
        self.synth = []          # synthetic AST nodes are kept alive (oracle ids are keyed by id(node))
        for k, rel in MODULES.items():
            p = os.path.join(repo, rel)
            with open(p) as fh:
                src = fh.read()
            self.mods[k] = Mod(k, rel, ast.parse(src, filename=p))

    # ---------------------------------------------------------------- ids
    def site(self, ctx, node, hi=None, what=""):
        lo = node.lineno
        hi = hi if hi is not None else getattr(node, "end_lineno", lo)
        key = (ctx.mod.rel, lo)
        if key not in self.site_key:
            sid = len(self.site_key) + 1
            self.site_key[key] = sid
            self.sites[sid] = {"file": ctx.mod.rel, "func": ctx.qual, "lo": lo, "hi": hi, "what": what,
                               "calls": [], "ocode": None, "inline": [], "mutates": False}
            self.funcs.setdefault((ctx.mod.rel, ctx.qual), []).append(sid)
        else:
            info = self.sites[self.site_key[key]]
            info["hi"] = max(info["hi"], hi)
        return self.site_key[key]

    def oid(self, node, role):
        key = (id(node), role)
        if key not in self.oid_key:
            self.oid_key[key] = len(self.oid_key) + 1
        return self.oid_key[key]

    def field(self, name):
        if name not in self.fields:
            self.fields[name] = len(self.fields) + 1
        return self.fields[name]

    def hid(self, ctx, name):
        key = (ctx.mod.rel, ctx.qual, name)
        if key not in self.hids:
            self.hids[key] = len(self.hids) + 1
        return self.hids[key]

    # ---------------------------------------------------------------- generateDS member types
    def member_type(self, cls, member):
        if self.member_types is None:
            self.member_types = {}
            nml = self.mods["nml"]
            for cname, c in nml.classes.items():
                for n in c.body:
                    if (isinstance(n, ast.Assign) and len(n.targets) == 1 and isinstance(n.targets[0], ast.Name)
                            and n.targets[0].id == "member_data_items_" and isinstance(n.value, ast.List)):
                        for e in n.value.elts:
                            if (isinstance(e, ast.Call) and len(e.args) >= 2
                                    and isinstance(e.args[0], ast.Constant) and isinstance(e.args[1], ast.Constant)):
                                self.member_types[(cname, e.args[0].value)] = e.args[1].value
        if (cls, member) in self.member_over:
            return self.member_over[(cls, member)]
        t = self.member_types.get((cls, member))
        if t and t in self.mods["nml"].classes:
            return ("nml", t)
        return None

    def class_of_annotation(self, ann):
        if ann is None:
            return None
        d = dotted(ann)
        if d is None:
            return None
        name = d.split(".")[-1]
        for k, m in self.mods.items():
            if name in m.classes:
                return (k, name)
        return None

    def base_nml_class(self, t):
        c = self.mods[t[0]].classes.get(t[1])
        for b in (c.bases if c is not None else []):
            d = dotted(b)
            if d and d.split(".")[-1] in self.mods["nml"].classes:
                return d.split(".")[-1]
        return None

    def find_class(self, name):
        for k in ("writers", "loaders", "hdf5parser", "hdf5init", "netcontainer", "nml"):
            if name in self.mods[k].classes:
                return (k, name)
        return None

    # ---------------------------------------------------------------- expression classification
    def expr_type(self, ctx, e):
        """class of the value of `e` if cheaply known"""
        if isinstance(e, ast.Name):
            return ctx.types.get(e.id)
        if isinstance(e, ast.Attribute):
            bt = self.expr_type(ctx, e.value)
            if bt and bt[0] == "nml":
                return self.member_type(bt[1], e.attr)
            if bt and bt[0] == "netcontainer":
                base = self.base_nml_class(bt)
                if base:
                    return self.member_type(base, e.attr)
        if isinstance(e, ast.Call):
            d = dotted(e.func)
            if d:
                if d.split(".")[0] == "enumerate" and e.args:
                    return self.expr_type(ctx, e.args[0])
                c = self.find_class(d.split(".")[-1])
                if c and c[0] != "nml":
                    return c
        return None

    def is_tracked_expr(self, ctx, e):
        r = root_name(e)
        return r is not None and r in ctx.tracked

    def is_doc_expr(self, ctx, e):
        if isinstance(e, ast.Call):
            d = dotted(e.func)
            if d == "enumerate" and e.args:
                return self.is_doc_expr(ctx, e.args[0])
            return False
        r = root_name(e)
        return r is not None and r in ctx.doc

    def resolve_call(self, ctx, call):
        """-> (modkey, cls or None, FunctionDef) | 'entry' | None"""
        f = call.func
        if isinstance(f, ast.Name):
            if f.id in ctx.mod.funcs:
                key = (ctx.mod.key, None, f.id)
                return "entry" if key in ENTRY_FUNCS else (ctx.mod.key, None, ctx.mod.funcs[f.id])
            for k in ("hdf5init", "loaders", "writers"):
                if f.id in self.mods[k].funcs:
                    key = (k, None, f.id)
                    return "entry" if key in ENTRY_FUNCS else (k, None, self.mods[k].funcs[f.id])
            return None
        if not isinstance(f, ast.Attribute):
            return None
        recv, name = f.value, f.attr
        target = None
        if isinstance(recv, ast.Name) and recv.id in ("cls", "self") and ctx.cls:
            target = (ctx.mod.key, ctx.cls)
        elif isinstance(recv, ast.Name) and recv.id not in ctx.types and self.find_class(recv.id) \
                and self.find_class(recv.id)[0] != "nml":
            target = self.find_class(recv.id)
        else:
            target = self.expr_type(ctx, recv)
        if target is None:
            return None
        if target[0] == "nml" and name not in NML_EXPAND:
            return None      # generateDS machinery (export, build, ...) is never expanded
        fn = self.mods[target[0]].method(target[1], name)
        if fn is None:
            return None
        if (target[0], target[1], name) in ENTRY_FUNCS:
            return "entry"
        return (target[0], target[1], fn)

    # ---------------------------------------------------------------- statements
    def seq(self, items):
        items = [i for i in items if i != ("skip",)]
        # group  open ; try..finally close   and   mutate ; try..finally restore  into one unit
        out = []
        i = 0
        while i < len(items):
            a = items[i]
            if i + 1 < len(items):
                b = items[i + 1]
                if (a[0] == "call" and a[1][0] == "open_" and b[0] == "tryFinally" and b[3][0] == "call"
                        and b[3][1][0] == "close") or \
                   (a[0] == "mutate" and b[0] == "tryFinally" and b[3][0] == "restore"):
                    out.append(("seq", a, b))
                    i += 2
                    continue
            out.append(a)
            i += 1
        if not out:
            return ("skip",)
        r = out[-1]
        for x in reversed(out[:-1]):
            r = ("seq", x, r)
        return r

    def opaque(self, ctx, node, site, kind="export"):
        """un-expanded code at `site`.  One site has ONE opaque kind (export wins over readNode)."""
        cur = self.sites[site]["ocode"]
        if cur is None or EFF_CODE[kind] > cur:
            self.sites[site]["ocode"] = EFF_CODE[kind]
        return ("OPQ", id(node), site)

    def note_call(self, site, code):
        if EFF_CODE[code] not in self.sites[site]["calls"]:
            self.sites[site]["calls"].append(EFF_CODE[code])

    def finish(self, t):
        """replace OPQ placeholders (kind is known only when the whole site has been scanned)"""
        if not isinstance(t, tuple):
            return t
        if t and t[0] == "OPQ":
            site = t[2]
            kind = "export" if self.sites[site]["ocode"] == EFF_CODE["export"] else "readNode"
            return ("seq", ("loop", self.oidk((t[1], "ol")), ("call", ("io", kind), site)),
                    ("mayRaise", self.oidk((t[1], "or")), site))
        return tuple(self.finish(x) if isinstance(x, tuple) else x for x in t)

    def oidk(self, key):
        if key not in self.oid_key:
            self.oid_key[key] = len(self.oid_key) + 1
        return self.oid_key[key]

    def scan_expr(self, ctx, e, site, stmt_node, assign_target=None):
        """items for the evaluation of expression `e` (post-order)"""
        items = []
        shortcut = [False]

        def add_opaque(node, kind):
            it = self.opaque(ctx, stmt_node, site, kind)
            if items and items[-1] == it:
                return
            items.append(it)

        def visit(n, guarded):
            if isinstance(n, (ast.Lambda, ast.ListComp, ast.SetComp, ast.DictComp, ast.GeneratorExp)):
                for c in ast.iter_child_nodes(n):
                    visit(c, True)
                return
            if isinstance(n, ast.BoolOp):
                visit(n.values[0], guarded)
                for v in n.values[1:]:
                    visit(v, True)
                return
            if isinstance(n, ast.IfExp):
                visit(n.test, guarded)
                visit(n.body, True)
                visit(n.orelse, True)
                return
            if isinstance(n, (ast.Yield, ast.YieldFrom, ast.Await, ast.NamedExpr)):
                items.append(("unsupported", site))
            if isinstance(n, ast.Call):
                d = dotted(n.func)
                # children first: receiver expression, then arguments
                if isinstance(n.func, ast.Attribute):
                    visit(n.func.value, guarded)
                elif not isinstance(n.func, ast.Name):
                    visit(n.func, guarded)
                for a in n.args:
                    visit(a.value if isinstance(a, ast.Starred) else a, guarded)
                for k in n.keywords:
                    visit(k.value, guarded)
                eff = None
                if d in OPEN_FUNCS:
                    h = self.hid(ctx, assign_target or "_anon%d" % n.lineno)
                    if assign_target:
                        ctx.handles[assign_target] = h
                        ctx.tracked.add(assign_target)
                    eff = ("open_", h)
                    code = "open"
                elif isinstance(n.func, ast.Attribute) and n.func.attr in IO_METHODS:
                    eff = ("io", IO_METHODS[n.func.attr])
                    code = IO_METHODS[n.func.attr]
                elif isinstance(n.func, ast.Attribute) and n.func.attr == "close" and isinstance(n.func.value, ast.Name) \
                        and n.func.value.id in ctx.handles and not n.args:
                    eff = ("close", ctx.handles[n.func.value.id])
                    code = "close"
                elif isinstance(n.func, ast.Attribute) and n.func.attr in ("write", "writelines") \
                        and isinstance(n.func.value, ast.Name) and n.func.value.id in ctx.handles:
                    eff = ("io", "write")
                    code = "write"
                if eff is not None:
                    if guarded:
                        items.append(("unsupported", site))
                    argv = [a.value if isinstance(a, ast.Starred) else a for a in n.args] + \
                           [k.value for k in n.keywords]
                    if not all(self.trivial_expr(ctx, a) for a in argv) and not (items and items[-1][0] == "OPQ"):
                        # evaluating the arguments can raise before the call is made
                        items.append(("mayRaise", self.oid(n, "ar"), site))
                    self.note_call(site, code)
                    items.append(("call", eff, site))
                    return
                res = self.resolve_call(ctx, n)
                if res == "entry" or res is None:
                    pure = False
                    if res is None and d is not None:
                        if d in PURE_BUILTINS or d in PURE_DOTTED:
                            pure = True
                    if res is None and d in NOFILE_DOTTED:
                        items.append(("mayRaise", self.oid(n, "nf"), site))
                        return
                    if pure:
                        # hasattr(node, ..), len(array), list(group): reads through a file-layer object
                        if any(self.is_tracked_expr(ctx, a) for a in n.args):
                            add_opaque(n, "readNode")
                        return
                    add_opaque(n, "export")
                    return
                mk, cls, fn = res
                key = (mk, cls, fn.name)
                if ctx.stack.count(key) >= UNROLL.get(key, 1) or ctx.depth >= MAX_DEPTH or guarded:
                    add_opaque(n, "export")
                    return
                items.append(self.inline(ctx, n, mk, cls, fn, site))
                return
            if isinstance(n, (ast.Attribute, ast.Subscript)) and isinstance(n.ctx, ast.Load):
                if self.is_tracked_expr(ctx, n):
                    add_opaque(n, "readNode")
                    # still scan subscripts / inner calls
                    for c in ast.iter_child_nodes(n):
                        if not isinstance(c, (ast.Name, ast.expr_context)):
                            visit(c, guarded)
                    return
            if isinstance(n, ast.Compare):
                visit(n.left, guarded)
                for op, c in zip(n.ops, n.comparators):
                    if isinstance(op, (ast.In, ast.NotIn)) and self.is_tracked_expr(ctx, c):
                        add_opaque(c, "readNode")
                    visit(c, guarded)
                return
            for c in ast.iter_child_nodes(n):
                visit(c, guarded)

        if e is not None:
            visit(e, False)
        return items

    def bind_target(self, ctx, target, value):
        """taint / tracking / type propagation for `target = value`"""
        if isinstance(target, ast.Tuple):
            # `for i, x in enumerate(doc.cells)`
            for t in target.elts:
                self.bind_target(ctx, t, value)
            return
        if not isinstance(target, ast.Name) or value is None:
            return
        name = target.id
        ctx.env.pop(name, None)
        if isinstance(value, ast.Name) and value.id in ctx.handles:
            ctx.handles[name] = ctx.handles[value.id]       # `f = h5file`: a second name for the same handle
        if self.is_tracked_expr(ctx, value) or (isinstance(value, ast.Call) and (
                dotted(value.func) in OPEN_FUNCS or (isinstance(value.func, ast.Attribute)
                                                    and value.func.attr in IO_METHODS))):
            ctx.tracked.add(name)
        if self.is_doc_expr(ctx, value):
            ctx.doc.add(name)
        t = self.expr_type(ctx, value)
        if t:
            ctx.types[name] = t
        elif name in ctx.types:
            del ctx.types[name]
        if isinstance(value, ast.Constant) and isinstance(value.value, (bool, type(None))):
            ctx.env[name] = value.value

    def doc_mutation(self, ctx, stmt):
        """-> ('mutate'|'restore', field id) | None for a simple statement"""
        if isinstance(stmt, (ast.Assign, ast.AugAssign, ast.AnnAssign)):
            targets = stmt.targets if isinstance(stmt, ast.Assign) else [stmt.target]
            for t in targets:
                if isinstance(t, (ast.Attribute, ast.Subscript)):
                    base = t.value
                    r = root_name(t)
                    if r in ctx.doc:
                        fname = t.attr if isinstance(t, ast.Attribute) else (dotted(base) or "item").split(".")[-1]
                        key = (dotted(base) or r, fname)
                        if key in ctx.detached:
                            return ("restore", ctx.detached.pop(key))
                        v = stmt.value
                        detaching = isinstance(v, (ast.List, ast.Dict)) and not getattr(v, "elts", getattr(v, "keys", []))
                        detaching = detaching or (isinstance(v, ast.Constant) and v.value is None)
                        f = self.field(fname)
                        if detaching and isinstance(stmt, ast.Assign):
                            ctx.detached[key] = f
                        return ("mutate", f)
        if isinstance(stmt, ast.Expr) and isinstance(stmt.value, ast.Call):
            f = stmt.value.func
            if isinstance(f, ast.Attribute) and f.attr in LIST_MUTATORS and isinstance(f.value, ast.Attribute):
                r = root_name(f.value)
                if r in ctx.doc:
                    key = (dotted(f.value.value) or r, f.value.attr)
                    if key in ctx.detached:
                        return ("restore", ctx.detached.pop(key))
                    return ("mutate", self.field(f.value.attr))
        return None

    def simple(self, ctx, stmt):
        site = self.site(ctx, stmt, what=type(stmt).__name__)
        target = None
        value = getattr(stmt, "value", None)
        if isinstance(stmt, ast.Assign) and len(stmt.targets) == 1 and isinstance(stmt.targets[0], ast.Name):
            target = stmt.targets[0].id
        items = []
        if isinstance(stmt, ast.Assign):
            for t in stmt.targets:
                if not isinstance(t, ast.Name):
                    items += self.scan_expr(ctx, t, site, stmt)
        elif isinstance(stmt, (ast.AugAssign, ast.AnnAssign)) and not isinstance(stmt.target, ast.Name):
            items += self.scan_expr(ctx, stmt.target, site, stmt)
        dm = self.doc_mutation(ctx, stmt)
        if dm and isinstance(stmt, ast.Expr):
            # X.f.append(v): scan only the arguments
            for a in stmt.value.args:
                items += self.scan_expr(ctx, a, site, stmt)
        else:
            items += self.scan_expr(ctx, value, site, stmt, assign_target=target)
        if not any(i[0] in ("OPQ", "call", "scope") for i in items) and not self.trivial_stmt(ctx, stmt):
            # no call at all, but the statement can still raise (index out of range, None attribute, ...)
            items.append(("mayRaise", self.oid(stmt, "sr"), site))
        if dm:
            items.append((dm[0], dm[1], site) if dm[0] == "mutate" else (dm[0], dm[1]))
            if dm[0] == "mutate":
                self.sites[site]["mutates"] = True
        if isinstance(stmt, ast.Assign):
            for t in stmt.targets:
                self.bind_target(ctx, t, value)
        elif isinstance(stmt, ast.AnnAssign):
            self.bind_target(ctx, stmt.target, value)
        return items

    def trivial_expr(self, ctx, e):
        if e is None or isinstance(e, (ast.Constant, ast.Name)):
            return True
        if isinstance(e, (ast.List, ast.Tuple, ast.Set)):
            return all(self.trivial_expr(ctx, x) for x in e.elts)
        if isinstance(e, ast.Dict):
            return not e.keys
        if isinstance(e, ast.UnaryOp) and isinstance(e.op, ast.Not):
            return self.trivial_expr(ctx, e.operand)
        if isinstance(e, ast.Attribute):
            # attribute of a plain (non file-layer) object or module
            return self.trivial_expr(ctx, e.value) and not self.is_tracked_expr(ctx, e)
        if isinstance(e, ast.BinOp):
            # only constant folding; `'population_' + self.id` raises TypeError for an id that is None
            return self.const_expr(e.left) and self.const_expr(e.right)
        return False

    def const_expr(self, e):
        if isinstance(e, ast.Constant):
            return True
        if isinstance(e, ast.BinOp):
            return self.const_expr(e.left) and self.const_expr(e.right)
        return False

    def trivial_stmt(self, ctx, stmt):
        """cannot raise: plain name/constant assignments"""
        if isinstance(stmt, ast.Assign):
            return all(isinstance(t, ast.Name) for t in stmt.targets) and self.trivial_expr(ctx, stmt.value)
        if isinstance(stmt, ast.AnnAssign):
            return isinstance(stmt.target, ast.Name) and self.trivial_expr(ctx, stmt.value)
        if isinstance(stmt, ast.AugAssign):
            return isinstance(stmt.target, ast.Name) and self.trivial_expr(ctx, stmt.value)
        if isinstance(stmt, ast.Expr):
            return self.trivial_expr(ctx, stmt.value)
        return False

    def head_items(self, ctx, expr, site, node):
        """items for the evaluation of an `if`/`while` test or a `for` iterable"""
        items = self.scan_expr(ctx, expr, site, node)
        if not any(i[0] in ("OPQ", "call", "scope") for i in items) and not self.trivial_expr(ctx, expr):
            items.append(("mayRaise", self.oid(node, "hr"), site))
        return items

    def test_value(self, ctx, test):
        """True / False / None (unknown) for an `if` test under the entry assumptions"""
        if isinstance(test, ast.Name) and test.id in ctx.env and isinstance(ctx.env[test.id], bool):
            return ctx.env[test.id]
        if isinstance(test, ast.UnaryOp) and isinstance(test.op, ast.Not):
            v = self.test_value(ctx, test.operand)
            return None if v is None else (not v)
        if isinstance(test, ast.Call) and dotted(test.func) == "isinstance" and len(test.args) == 2 \
                and isinstance(test.args[0], ast.Name):
            ann = ctx.annot.get(test.args[0].id)
            want = dotted(test.args[1])
            if (test.args[0].id, want) in ctx.isinst:
                return ctx.isinst[(test.args[0].id, want)]
            if ann is not None and want is not None and ann == want:
                return True
        return None

    def block(self, ctx, stmts):
        items = []
        for s in stmts:
            items += self.stmt(ctx, s)
        return items

    def is_restore_loop(self, ctx, node):
        """`for n in xs: X.f.append(n)` where (X, f) is detached -> field id"""
        if len(node.body) != 1 or node.orelse:
            return None
        s = node.body[0]
        if isinstance(s, ast.Expr) and isinstance(s.value, ast.Call):
            f = s.value.func
            if isinstance(f, ast.Attribute) and f.attr in ("append", "extend") and isinstance(f.value, ast.Attribute):
                r = root_name(f.value)
                key = (dotted(f.value.value) or r, f.value.attr)
                if r in ctx.doc and key in ctx.detached:
                    return key
        return None

    def desugar(self, s):
        """`x = A if T else B` (also `return ...`, a bare expression) is read as `if T: x = A` / `else: x = B`"""
        v = getattr(s, "value", None)
        if isinstance(s, (ast.Assign, ast.AnnAssign, ast.Return, ast.Expr)) and isinstance(v, ast.IfExp):
            if id(s) in self.desugared:
                return self.desugared[id(s)]

            def mk(val):
                c = copy.copy(s)
                c.value = val
                return c
            node = ast.If(test=v.test, body=[mk(v.body)], orelse=[mk(v.orelse)])
            ast.copy_location(node, s)
            self.synth.append(node)
            self.desugared[id(s)] = node
            return node
        return s

    def loop_body(self, loop):
        """`continue` as the last statement of an `if` branch that stands directly in the loop body (not inside a
        try/with/inner loop) only skips the rest of the body:  `if T: A; continue` REST  is read as
        `if T: A` / `else: REST` (likewise for a `continue` ending the else branch); a `continue` that ends the body
        itself is dropped.  Any other `continue` stays `unsupported`.  One rewrite per loop (oracle ids are per node)."""
        if id(loop) in self.desugared:
            return self.desugared[id(loop)]

        def rewrite(stmts):
            stmts = list(stmts)
            if stmts and isinstance(stmts[-1], ast.Continue):
                stmts = stmts[:-1]
            for i, st in enumerate(stmts):
                if not isinstance(st, ast.If):
                    continue
                b_cont = bool(st.body) and isinstance(st.body[-1], ast.Continue)
                e_cont = bool(st.orelse) and isinstance(st.orelse[-1], ast.Continue)
                if not (b_cont or e_cont):
                    continue
                rest = stmts[i + 1:]
                new = copy.copy(st)
                nb = list(st.body[:-1]) if b_cont else list(st.body) + rest
                ne = list(st.orelse[:-1]) if e_cont else list(st.orelse) + rest
                if b_cont and e_cont:
                    rest = []
                new.body = rewrite(nb)
                new.orelse = rewrite(ne)
                if not new.body:
                    p = ast.Pass()
                    ast.copy_location(p, st)
                    new.body = [p]
                self.synth.append(new)
                return stmts[:i] + [new]
            return stmts

        out = rewrite(loop.body)
        self.desugared[id(loop)] = out
        return out

    def open_in_try(self, ctx, s):
        """`h = None` ... `try: h = open(..); REST finally: if h [is not None]: h.close()`  (no handlers): the same
        as `h = open(..)` followed by `try: REST finally: h.close()` -- when the open raises nothing is open and the
        `finally` skips the close.  Returns (open statement, rewritten try) or None."""
        if s.handlers or s.orelse or len(s.finalbody) != 1 or not s.body:
            return None
        if id(s) in self.desugared:
            return self.desugared[id(s)]
        first, fin = s.body[0], s.finalbody[0]
        if not (isinstance(first, ast.Assign) and len(first.targets) == 1 and isinstance(first.targets[0], ast.Name)
                and isinstance(first.value, ast.Call) and dotted(first.value.func) in OPEN_FUNCS):
            return None
        name = first.targets[0].id
        if not (name in ctx.env and ctx.env[name] is None):
            return None
        argv = list(first.value.args) + [k.value for k in first.value.keywords]
        if not all(self.trivial_expr(ctx, a) for a in argv):
            return None
        if not (isinstance(fin, ast.If) and not fin.orelse and len(fin.body) == 1):
            return None
        t = fin.test
        ok = isinstance(t, ast.Name) and t.id == name
        ok = ok or (isinstance(t, ast.Compare) and isinstance(t.left, ast.Name) and t.left.id == name
                    and len(t.ops) == 1 and isinstance(t.ops[0], ast.IsNot)
                    and isinstance(t.comparators[0], ast.Constant) and t.comparators[0].value is None)
        c = fin.body[0]
        ok = ok and isinstance(c, ast.Expr) and isinstance(c.value, ast.Call) and dotted(c.value.func) == name + ".close" \
            and not c.value.args
        if not ok:
            return None
        new = copy.copy(s)
        rest = list(s.body[1:])
        if not rest:
            p = ast.Pass()
            ast.copy_location(p, first)
            rest = [p]
        new.body = rest
        new.finalbody = [c]
        self.synth.append(new)
        self.desugared[id(s)] = (first, new)
        return first, new

    def stmt(self, ctx, s):
        s = self.desugar(s)
        if isinstance(s, (ast.Pass, ast.Import, ast.ImportFrom, ast.FunctionDef, ast.ClassDef, ast.Global,
                          ast.Nonlocal)):
            return []
        if isinstance(s, ast.Expr) and isinstance(s.value, ast.Constant):
            return []
        if isinstance(s, (ast.Expr, ast.Assign, ast.AugAssign, ast.AnnAssign)):
            return self.simple(ctx, s)
        if isinstance(s, ast.Return):
            site = self.site(ctx, s, what="Return")
            return self.scan_expr(ctx, s.value, site, s) + [("ret",)]
        if isinstance(s, ast.Raise):
            site = self.site(ctx, s, what="Raise")
            e = s.exc
            if e is None:
                return [("reraise", site)]
            inner = e
            if isinstance(inner, ast.Name) and inner.id in ctx.exc_names:
                return [("reraise", site)]
            items = []
            name = None
            if isinstance(e, ast.Call):
                for a in e.args:
                    items += self.scan_expr(ctx, a, site, s)
                name = dotted(e.func)
            elif isinstance(e, ast.Name):
                name = e.id
            kind = EXC_KINDS.get((name or "").split(".")[-1], 0)
            return items + [("raise_", kind, site)]
        if isinstance(s, ast.Assert):
            site = self.site(ctx, s, what="Assert")
            return self.scan_expr(ctx, s.test, site, s) + [self.opaque(ctx, s, site, "export")]
        if isinstance(s, ast.If):
            site = self.site(ctx, s, hi=s.test.end_lineno, what="If")
            tv = self.test_value(ctx, s.test)
            if tv is True:
                return self.block(ctx, s.body)
            if tv is False:
                return self.block(ctx, s.orelse)
            items = self.head_items(ctx, s.test, site, s)
            saved = dict(ctx.detached)
            a = self.seq(self.block(ctx, s.body))
            d1 = ctx.detached
            ctx.detached = dict(saved)
            b = self.seq(self.block(ctx, s.orelse))
            ctx.detached.update(d1)
            if a == ("skip",) and b == ("skip",):
                return items
            return items + [("choice", self.oid(s, "if"), a, b)]
        if isinstance(s, (ast.For, ast.While)):
            head_hi = (s.iter.end_lineno if isinstance(s, ast.For) else s.test.end_lineno)
            site = self.site(ctx, s, hi=head_hi, what=type(s).__name__)
            items = []
            if isinstance(s, ast.For):
                key = self.is_restore_loop(ctx, s)
                if key is not None:
                    return [("restore", ctx.detached.pop(key))]
                if self.is_tracked_expr(ctx, s.iter) and isinstance(s.iter, ast.Name):
                    items.append(self.opaque(ctx, s, site, "readNode"))
                else:
                    items += self.head_items(ctx, s.iter, site, s)
                # bind the loop variable(s)
                it = s.iter
                self.bind_target(ctx, s.target, it)
                t = self.expr_type(ctx, it)
                if t:
                    for n in ([s.target] if isinstance(s.target, ast.Name) else getattr(s.target, "elts", [])):
                        if isinstance(n, ast.Name):
                            ctx.types[n.id] = t
                head = []
            else:
                head = self.head_items(ctx, s.test, site, s)
                items += head
            if s.orelse:
                items.append(("unsupported", site))
            body = self.seq(self.block(ctx, self.loop_body(s)) + (head if isinstance(s, ast.While) else []))
            if body == ("skip",):
                return items
            return items + [("loop", self.oid(s, "loop"), body)]
        if isinstance(s, ast.With):
            site = self.site(ctx, s, hi=s.items[-1].context_expr.end_lineno, what="With")
            ce = s.items[0].context_expr
            if isinstance(ce, ast.Call) and dotted(ce.func) in ("closing", "contextlib.closing") and len(ce.args) == 1 \
                    and not ce.keywords:
                ce = ce.args[0]
            if len(s.items) == 1 and isinstance(ce, ast.Name) and ce.id in ctx.handles:
                # `with h5file:` on a handle opened before: the body is guarded by the handle's close
                h = ctx.handles[ce.id]
                it = s.items[0]
                if isinstance(it.optional_vars, ast.Name):
                    ctx.handles[it.optional_vars.id] = h
                    ctx.tracked.add(it.optional_vars.id)
                self.note_call(site, "close")
                body = self.seq(self.block(ctx, s.body))
                return [("tryFinally", site, body, ("call", ("close", h), site))]
            if len(s.items) == 1 and isinstance(ce, ast.Call) and dotted(ce.func) in OPEN_FUNCS:
                it = copy.copy(s.items[0])
                it.context_expr = ce
                var = it.optional_vars.id if isinstance(it.optional_vars, ast.Name) else None
                pre = []
                for a in it.context_expr.args:
                    pre += self.scan_expr(ctx, a, site, s)
                for k in it.context_expr.keywords:
                    pre += self.scan_expr(ctx, k.value, site, s)
                h = self.hid(ctx, var or "_with%d" % s.lineno)
                if var:
                    ctx.handles[var] = h
                    ctx.tracked.add(var)
                self.note_call(site, "open")
                self.note_call(site, "close")
                body = self.seq(self.block(ctx, s.body))
                return pre + [("seq", ("call", ("open_", h), site),
                               ("tryFinally", site, body, ("call", ("close", h), site)))]
            return [("unsupported", site)] + self.block(ctx, s.body)
        if isinstance(s, ast.Try):
            hoist = self.open_in_try(ctx, s)
            if hoist is not None:
                return self.stmt(ctx, hoist[0]) + self.stmt(ctx, hoist[1])
            site = self.site(ctx, s, hi=s.lineno, what="Try")
            bad = bool(s.orelse) or len(s.handlers) > 1
            body = self.seq(self.block(ctx, s.body))
            r = body
            if s.handlers:
                h = s.handlers[0]
                kinds, catch_all = [], False
                types = []
                if h.type is None:
                    catch_all = True
                elif isinstance(h.type, ast.Tuple):
                    types = list(h.type.elts)
                else:
                    types = [h.type]
                for t in types:
                    nm = (dotted(t) or "?").split(".")[-1]
                    if nm in CATCH_ALL:
                        catch_all = True
                    elif nm in EXC_KINDS:
                        kinds.append(EXC_KINDS[nm])
                    else:
                        kinds.append(100 + len(nm))
                if h.name:
                    ctx.exc_names.append(h.name)
                hb = self.seq(self.block(ctx, h.body))
                if h.name:
                    ctx.exc_names.pop()
                r = ("tryExcept", site, body, sorted(set(kinds)), catch_all, hb)
            if s.finalbody:
                fin = self.seq(self.block(ctx, s.finalbody))
                r = ("tryFinally", site, r, fin)
            return ([("unsupported", site)] if bad else []) + [r]
        if isinstance(s, ast.Delete):
            # `del name[...]` / `del obj.attr`: no call; can raise; a deletion through a file-layer object is a call
            site = self.site(ctx, s, what="Delete")
            if any(self.is_tracked_expr(ctx, t) for t in s.targets):
                return [self.opaque(ctx, s, site, "export")]
            if any(root_name(t) in ctx.doc for t in s.targets):
                return [("unsupported", site)]
            return [("mayRaise", self.oid(s, "del"), site)]
        # break / other continue / match / async / anything else
        site = self.site(ctx, s, what=type(s).__name__)
        return [("unsupported", site), self.opaque(ctx, s, site, "export")]

    # ---------------------------------------------------------------- functions
    def inline(self, ctx, call, mk, cls, fn, site):
        mod = self.mods[mk]
        sub = Ctx(mod, cls, fn, ctx.depth + 1, ctx.stack + ((mk, cls, fn.name),))
        params = [a.arg for a in fn.args.args]
        args = list(call.args)
        bound = {}
        is_method = cls is not None
        recv = call.func.value if isinstance(call.func, ast.Attribute) else None
        if is_method and params:
            first = params[0]
            if first in ("self", "cls"):
                if recv is not None and not (isinstance(recv, ast.Name) and recv.id in ("cls",) + tuple(
                        k for k in [recv.id] if self.find_class(k) and k not in ctx.types)):
                    bound[first] = recv
                params = params[1:]
                sub.types[first] = (mk, cls)
        for p, a in zip(params, args):
            bound[p] = a
        for k in call.keywords:
            if k.arg:
                bound[k.arg] = k.value
        defaults = fn.args.defaults
        dparams = [a.arg for a in fn.args.args][len(fn.args.args) - len(defaults):]
        for p, dv in zip(dparams, defaults):
            if p not in bound and isinstance(dv, ast.Constant) and isinstance(dv.value, (bool, type(None))):
                sub.env[p] = dv.value
        for p, a in bound.items():
            if self.is_tracked_expr(ctx, a):
                sub.tracked.add(p)
                if isinstance(a, ast.Name) and a.id in ctx.handles:
                    sub.handles[p] = ctx.handles[a.id]
            if self.is_doc_expr(ctx, a):
                sub.doc.add(p)
            t = self.expr_type(ctx, a)
            if t and p not in ("self", "cls"):
                sub.types[p] = t
            if isinstance(a, ast.Constant) and isinstance(a.value, (bool, type(None))):
                sub.env[p] = a.value
            elif isinstance(a, ast.Name) and a.id in ctx.env:
                sub.env[p] = ctx.env[a.id]
        for a in fn.args.args:
            if a.annotation is not None:
                sub.annot[a.arg] = dotted(a.annotation)
                t = self.class_of_annotation(a.annotation)
                if t and a.arg not in sub.types:
                    sub.types[a.arg] = t
        callee = (mod.rel, sub.qual)
        if callee not in [tuple(x) for x in self.sites[site]["inline"]]:
            self.sites[site]["inline"].append(list(callee))
        self.funcs.setdefault(callee, [])
        # the body depends only on the function and on what is known about its arguments: expanded once per
        # distinct context and shared (a `def` of its own in the generated file)
        sig = (mk, cls, fn.name, tuple(sorted(sub.tracked)), tuple(sorted(sub.handles.items())),
               tuple(sorted(sub.doc)), tuple(sorted(sub.types.items())),
               tuple(sorted((k, repr(v)) for k, v in sub.env.items())), sub.stack, sub.depth,
               tuple(sorted(self.member_over.items())))
        if sig not in self.memo:
            body = self.seq(self.block(sub, fn.body))
            bkey = (mk, cls, fn.name, repr(body))
            if bkey not in self.memo:
                self.memo[bkey] = len(self.defs)
                self.defs.append(["f%d_%s" % (len(self.defs) + 1, fn.name.strip("_")), body])
            self.memo[sig] = self.memo[bkey]
        return ("scope", ("ref", self.memo[sig]))

    def entry(self, eid, name, mk, cls, fname, env):
        mod = self.mods[mk]
        fn = mod.method(cls, fname) if cls else mod.funcs.get(fname)
        if fn is None:
            self.gaps.append("entry point %s not found in %s" % (name, mod.rel))
            return None
        ctx = Ctx(mod, cls, fn, 0, ((mk, cls, fname),))
        params = [a.arg for a in fn.args.args]
        if params and params[0] in ("self", "cls"):
            ctx.types[params[0]] = (mk, cls)
            params = params[1:]
        # the first real parameter of a writer is the document
        if mk == "writers" and params:
            ctx.doc.add(params[0])
        defaults = fn.args.defaults
        dparams = [a.arg for a in fn.args.args][len(fn.args.args) - len(defaults):]
        for p, dv in zip(dparams, defaults):
            if isinstance(dv, ast.Constant) and isinstance(dv.value, (bool, type(None))):
                ctx.env[p] = dv.value
        env = dict(env)
        ctx.isinst = dict(env.pop("__isinstance__", {}))
        self.member_over = dict(env.pop("__members__", {}))
        ctx.env.update(env)
        for a in fn.args.args:
            if a.annotation is not None:
                ctx.annot[a.arg] = dotted(a.annotation)
                t = self.class_of_annotation(a.annotation)
                if t:
                    ctx.types[a.arg] = t
        self.funcs.setdefault((mod.rel, ctx.qual), [])
        body = self.seq(self.block(ctx, fn.body))
        return {"id": eid, "name": name, "file": mod.rel, "func": ctx.qual, "stmt": ("scope", body)}

    def finish_all(self, entries):
        for e in entries:
            e["stmt"] = self.finish(e["stmt"])
        for d in self.defs:
            d[1] = self.finish(d[1])

    def run(self):
        entries = []
        for (eid, name, mk, cls, fname, env) in ENTRIES:
            e = self.entry(eid, name, mk, cls, fname, env)
            if e is not None:
                entries.append(e)
        self.finish_all(entries)
        return {"entries": entries, "sites": self.sites, "defs": self.defs,
                "unroll": {"%s::%s" % (self.mods[k[0]].rel, (k[1] + "." if k[1] else "") + k[2]): v
                           for k, v in UNROLL.items()},
                "funcs": {"%s::%s" % k: v for k, v in self.funcs.items()},
                "fields": {v: k for k, v in self.fields.items()}, "gaps": self.gaps}


def extract(repo):
    return Extractor(repo).run()


# -------------------------------------------------------------------- Lean rendering
def lean_stmt(t, ind=2):
    k = t[0]
    pad = " " * ind
    if k == "skip":
        return ".skip"
    if k == "ret":
        return ".ret"
    if k == "call":
        e = t[1]
        if e[0] == "io":
            return "(.call (.io .%s) %d)" % (e[1], t[2])
        return "(.call (.%s %d) %d)" % (e[0], e[1], t[2])
    if k == "raise_":
        return "(.raise_ %d %d)" % (t[1], t[2])
    if k in ("reraise", "unsupported", "restore"):
        return "(.%s %d)" % (k, t[1])
    if k == "mutate":
        return "(.mutate %d %d)" % (t[1], t[2])
    if k == "mayRaise":
        return "(.mayRaise %d %d)" % (t[1], t[2])
    if k == "seq":
        return "(.seq %s\n%s%s)" % (lean_stmt(t[1], ind + 2), pad, lean_stmt(t[2], ind))
    if k == "loop":
        return "(.loop %d\n%s  %s)" % (t[1], pad, lean_stmt(t[2], ind + 2))
    if k == "choice":
        return "(.choice %d\n%s  %s\n%s  %s)" % (t[1], pad, lean_stmt(t[2], ind + 2), pad, lean_stmt(t[3], ind + 2))
    if k == "tryFinally":
        return "(.tryFinally %d\n%s  %s\n%s  %s)" % (t[1], pad, lean_stmt(t[2], ind + 2), pad, lean_stmt(t[3], ind + 2))
    if k == "tryExcept":
        return "(.tryExcept %d\n%s  %s\n%s  [%s] %s\n%s  %s)" % (
            t[1], pad, lean_stmt(t[2], ind + 2), pad, ", ".join(str(x) for x in t[3]),
            "true" if t[4] else "false", pad, lean_stmt(t[5], ind + 2))
    if k == "scope":
        return "(.scope\n%s  %s)" % (pad, lean_stmt(t[1], ind + 2))
    if k == "ref":
        return DEFNAMES[t[1]]
    raise ValueError(k)


DEFNAMES = []


def emit_lean(res):
    global DEFNAMES
    DEFNAMES = [d[0] for d in res.get("defs", [])]
    out = ["import NmlVerif.Model.Fault",
           "/-! GENERATED by translators/skeleton_extract.py from the repository's working tree on every check run.",
           "    Do not edit.  Effect skeletons of the reader/writer entry points (property C08). -/",
           "namespace NmlVerif.Gen.Skeletons",
           "open NmlVerif.Fault", ""]
    for name, body in res.get("defs", []):
        out.append("def %s : Stmt :=\n  %s\n" % (name, lean_stmt(body, 2)))
    for e in res["entries"]:
        out.append("/-- %s  (%s) -/" % (e["name"], e["file"]))
        out.append("def sk%d : Stmt :=\n  %s\n" % (e["id"], lean_stmt(e["stmt"], 2)))
    out.append("/-- (entry id, skeleton); ids are fixed in the translator: %s -/" % ", ".join(
        "%d = %s" % (e["id"], e["name"]) for e in res["entries"]))
    out.append("def skeletons : List (Nat × Stmt) := [%s]" % ", ".join("(%d, sk%d)" % (e["id"], e["id"])
                                                                      for e in res["entries"]))
    out.append("")
    out.append("/-- site id ↦ source position (for messages) -/")
    out.append("def siteInfo : List (Nat × String) := [")
    rows = []
    for sid in sorted(res["sites"]):
        s = res["sites"][sid]
        rows.append('  (%d, "%s:%d %s")' % (sid, s["file"], s["lo"], s["func"]))
    out.append(",\n".join(rows))
    out.append("]")
    out.append("")
    out.append("end NmlVerif.Gen.Skeletons")
    return "\n".join(out) + "\n"


if __name__ == "__main__":
    import json
    import sys
    r = extract(sys.argv[1] if len(sys.argv) > 1 else "/repo")
    if len(sys.argv) > 2 and sys.argv[2] == "json":
        print(json.dumps(r, indent=1, default=str))
    else:
        print(emit_lean(r))
        for g in r["gaps"]:
            print("-- GAP:", g)
