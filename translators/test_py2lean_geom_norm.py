"""Self-test of py2lean_geom's normaliser (robustness round): behaviour-preserving rewrites of the translated functions
must come out as the canonical text, behaviour-changing ones (and anything that re-associates / reorders arithmetic or
changes the order of guards, calls and tests) must not, unknown shapes must be refused.
Run: /venv/bin/python translators/test_py2lean_geom_norm.py   (exit 1 when an expectation fails)"""
import ast, sys
import os
sys.path.insert(0, os.path.dirname(os.path.abspath(__file__)))
import py2lean_geom as g
from py2lean_geom_canon import CANON_SRC

def status(key, src):
    node = ast.parse(src).body[0]
    try:
        t = g.emit(key[0], key[1], node)
    except g.Gap as e:
        return "GAP: %s" % e
    return "CANON" if t == g.reference()[key][0] else "DIFFERENT"

def variant(key, *subs):
    s = CANON_SRC[key]
    for a, b in subs:
        assert s.count(a) >= 1, (key, a)
        s = s.replace(a, b)
    return s

L, V, A = ('Segment','length'), ('Segment','volume'), ('Segment','surface_area')
D = ('Point3DWithDiam','distance_to')
P, GL, GA, GV = ('Cell','get_actual_proximal'), ('Cell','get_segment_length'), ('Cell','get_segment_surface_area'), ('Cell','get_segment_volume')

tests = []
def T(name, expect, key, src): tests.append((name, expect, key, src))

# ---------------- harmless: must be CANON
T("canon itself", "CANON", L, CANON_SRC[L])
T("length: rename local", "CANON", L, variant(L, ("    length = ", "    seg_length = "), ("return length", "return seg_length")))
T("length: inline result", "CANON", L, variant(L, ("    length = ", "    return "), ("\n    return length", "")))
T("length: introduce dx,dy,dz", "CANON", L, variant(L, ("    length = ((prox_x - dist_x) ** 2 + (prox_y - dist_y) ** 2 + (prox_z - dist_z) ** 2) ** 0.5",
   "    dx = prox_x - dist_x\n    dy = prox_y - dist_y\n    dz = prox_z - dist_z\n    length = (dx ** 2 + dy ** 2 + dz ** 2) ** 0.5")))
T("length: is None + f-string + tuple assignment + annotated local", "CANON", L, '''
@property
def length(self) -> float:
    """doc"""
    if self.proximal is None:
        raise Exception(f"Cannot get length of segment {self.id} using the length property")
    prox_x, prox_y, prox_z = self.proximal.x, self.proximal.y, self.proximal.z
    dist_x, dist_y, dist_z = self.distal.x, self.distal.y, self.distal.z
    length: float = ((prox_x - dist_x) ** 2 + (prox_y - dist_y) ** 2 + (prox_z - dist_z) ** 2) ** 0.5
    return length
''')
T("length: alias p = self.proximal, %-message, not-truthiness", "CANON", L, '''
@property
def length(self):
    p = self.proximal
    d = self.distal
    if not p:
        raise Exception("Cannot get length of segment %s using the length property" % self.id)
    return ((p.x - d.x) ** 2 + (p.y - d.y) ** 2 + (p.z - d.z) ** 2) ** 0.5
''')
T("length: inverted polarity (if proximal is not None: compute else raise)", "CANON", L, '''
@property
def length(self):
    if self.proximal is not None:
        prox_x = self.proximal.x
        prox_y = self.proximal.y
        prox_z = self.proximal.z
        dist_x = self.distal.x
        dist_y = self.distal.y
        dist_z = self.distal.z
        return ((prox_x - dist_x) ** 2 + (prox_y - dist_y) ** 2 + (prox_z - dist_z) ** 2) ** 0.5
    else:
        raise Exception("Cannot get length of segment {} using".format(self.id))
''')
T("volume: H4 renames", "CANON", V, variant(V, ("length = self.length", "seg_length = self.length"), ("* length *", "* seg_length *"), ("    volume = ", "    seg_volume = "), ("return volume", "return seg_volume")))
T("volume: inline self.length and result", "CANON", V, variant(V, ("    length = self.length\n", ""), ("* length *", "* self.length *"), ("    volume = ", "    return "), ("\n    return volume", "")))
T("volume: == instead of != with swapped branches", "CANON", V, variant(V,
  ("        if prox_rad != dist_rad:\n            raise Exception('Cannot get volume of segment ' + str(self.id) + '. The (x,y,z) coordinates of the proximal and distal points match (i.e. it is a sphere), but the diameters of these points are different, making the volume calculation ambiguous.')\n        return 4.0 / 3 * pi * prox_rad ** 3",
   "        if prox_rad == dist_rad:\n            return 4.0 / 3 * pi * prox_rad ** 3\n        else:\n            raise Exception('Cannot get volume of segment ' + str(self.id) + '. The')")))
T("volume: `not a == b`, else after the sphere branch", "CANON", V, variant(V, ("if prox_rad != dist_rad:", "if not prox_rad == dist_rad:"),
  ("    length = self.length\n    volume = pi / 3 * length * (prox_rad ** 2 + dist_rad ** 2 + prox_rad * dist_rad)\n    return volume",
   "    else:\n        length = self.length\n        volume = pi / 3 * length * (prox_rad ** 2 + dist_rad ** 2 + prox_rad * dist_rad)\n        return volume")))
T("volume: math.pi", "CANON", V, variant(V, ("* pi *", "* math.pi *"), ("pi / 3", "math.pi / 3")))
T("area: H4 rename", "CANON", A, variant(A, ("length = self.length", "seg_length = self.length"), ("length ** 2", "seg_length ** 2")))
T("area: math.sqrt / ** 0.5 for sqrt (existing rule)", "CANON", A, variant(A, ("sqrt((prox_rad - dist_rad) ** 2 + length ** 2)", "((prox_rad - dist_rad) ** 2 + length ** 2) ** 0.5")))
T("area: local for the slant", "CANON", A, variant(A, ("    surface_area = pi * (prox_rad + dist_rad) * sqrt((prox_rad - dist_rad) ** 2 + length ** 2)",
   "    slant = sqrt((prox_rad - dist_rad) ** 2 + length ** 2)\n    surface_area = pi * (prox_rad + dist_rad) * slant")))
T("distance_to: inline everything", "CANON", D, '''
def distance_to(self, other_3d_point):
    return ((self.x - other_3d_point.x) ** 2 + (self.y - other_3d_point.y) ** 2 + (self.z - other_3d_point.z) ** 2) ** 0.5
''')
T("actual_proximal: H4 early returns", "CANON", P, '''
def get_actual_proximal(self, segment_id):
    segment = self.get_segment(segment_id)
    if segment.proximal:
        return segment.proximal
    parent = self.get_segment(segment.parent.segments)
    fract = float(segment.parent.fraction_along)
    if fract == 1:
        return parent.distal
    if fract == 0:
        return self.get_actual_proximal(segment.parent.segments)
    pd = parent.distal
    pp = self.get_actual_proximal(segment.parent.segments)
    p = Point3DWithDiam(x=(1 - fract) * pp.x + fract * pd.x, y=(1 - fract) * pp.y + fract * pd.y, z=(1 - fract) * pp.z + fract * pd.z)
    p.diameter = (1 - fract) * pp.diameter + fract * pd.diameter
    return p
''')
T("actual_proximal: renamed locals, diameter in the constructor, is not None, pd bound after pp", "CANON", P, '''
def get_actual_proximal(self, segment_id):
    seg = self.get_segment(segment_id)
    if seg.proximal is not None:
        return seg.proximal
    par = seg.parent
    parent_seg = self.get_segment(par.segments)
    f = float(par.fraction_along)
    if f == 1:
        return parent_seg.distal
    elif f == 0:
        return self.get_actual_proximal(par.segments)
    pp = self.get_actual_proximal(par.segments)
    pd = parent_seg.distal
    return_point = Point3DWithDiam(x=(1 - f) * pp.x + f * pd.x, y=(1 - f) * pp.y + f * pd.y, z=(1 - f) * pp.z + f * pd.z, diameter=(1 - f) * pp.diameter + f * pd.diameter)
    return return_point
''')
T("get_segment_length: H4", "CANON", GL, '''
def get_segment_length(self, segment_id):
    segment = self.get_segment(segment_id)
    if segment.proximal:
        return segment.length
    prox = self.get_actual_proximal(segment_id)
    return segment.distal.distance_to(prox)
''')
T("get_segment_length: conditional expression, everything inlined", "CANON", GL, '''
def get_segment_length(self, segment_id):
    segment = self.get_segment(segment_id)
    return segment.length if segment.proximal else segment.distal.distance_to(self.get_actual_proximal(segment_id))
''')
T("get_segment_volume: temp_seg inlined, None-branch first", "CANON", GV, '''
def get_segment_volume(self, segment_id):
    seg = self.get_segment(segment_id)
    if seg.proximal is None:
        prox = self.get_actual_proximal(segment_id)
        return Segment(proximal=prox, distal=seg.distal).volume
    return seg.volume
''')
T("get_segment_surface_area: result in a local", "CANON", GA, variant(GA, ("        return temp_seg.surface_area", "        area = temp_seg.surface_area\n        return area"), ("        return segment.surface_area", "        area = segment.surface_area\n        return area")))

# ---------------- NOT harmless (or not provably so): must NOT be normalised to the canonical text
T("length: terms reordered (y first)", "DIFFERENT", L, variant(L, ("(prox_x - dist_x) ** 2 + (prox_y - dist_y) ** 2", "(prox_y - dist_y) ** 2 + (prox_x - dist_x) ** 2")))
T("length: re-associated sum", "DIFFERENT", L, variant(L, ("(prox_x - dist_x) ** 2 + (prox_y - dist_y) ** 2 + (prox_z - dist_z) ** 2", "(prox_x - dist_x) ** 2 + ((prox_y - dist_y) ** 2 + (prox_z - dist_z) ** 2)")))
T("length: dist - prox", "DIFFERENT", L, variant(L, ("(prox_x - dist_x)", "(dist_x - prox_x)")))
T("volume: radius = 0.5 * d", "DIFFERENT", V, variant(V, ("self.proximal.diameter / 2.0", "0.5 * self.proximal.diameter")))
T("volume: prox_rad*prox_rad for **2", "DIFFERENT", V, variant(V, ("(prox_rad ** 2 +", "(prox_rad * prox_rad +")))
T("volume: product commuted", "DIFFERENT", V, variant(V, ("prox_rad * dist_rad)", "dist_rad * prox_rad)")))
T("volume: pi * length / 3", "DIFFERENT", V, variant(V, ("pi / 3 * length", "pi * length / 3")))
T("volume: length read BEFORE the sphere test (exception order)", "DIFFERENT", V, variant(V, ("    length = self.length\n", ""), ("    prox_rad = self.proximal.diameter / 2.0", "    length = self.length\n    prox_rad = self.proximal.diameter / 2.0")))
T("volume: seeded 1 (y compared twice)", "DIFFERENT", V, variant(V, ("(self.proximal.z == self.distal.z)", "(self.proximal.y == self.distal.y)")))
T("volume: H4 renames + seeded 1 together", "DIFFERENT", V, variant(V, ("length = self.length", "seg_length = self.length"), ("* length *", "* seg_length *"), ("    volume = ", "    seg_volume = "), ("return volume", "return seg_volume"), ("(self.proximal.z == self.distal.z)", "(self.proximal.y == self.distal.y)")))
T("volume: sphere test drops z", "DIFFERENT", V, variant(V, (" and (self.proximal.z == self.distal.z)", "")))
T("volume: != -> == without swapping", "DIFFERENT", V, variant(V, ("if prox_rad != dist_rad:", "if prox_rad == dist_rad:")))
T("area: slant computed before reading self.length? (guard order: (r1-r2)**2 guard vs length bind)", "DIFFERENT", A, variant(A, ("    length = self.length\n", ""), ("    prox_rad = self.proximal.diameter / 2.0", "    length = self.length\n    prox_rad = self.proximal.diameter / 2.0")))
T("area: sqrt args swapped", "DIFFERENT", A, variant(A, ("(prox_rad - dist_rad) ** 2 + length ** 2", "length ** 2 + (prox_rad - dist_rad) ** 2")))
T("actual_proximal: seeded 2 (weights swapped on the diameter)", "DIFFERENT", P, variant(P, ("p.diameter = (1 - fract) * pp.diameter + fract * pd.diameter", "p.diameter = (1 - fract) * pd.diameter + fract * pp.diameter")))
T("actual_proximal: pp + f*(pd-pp)", "DIFFERENT", P, variant(P, ("x=(1 - fract) * pp.x + fract * pd.x", "x=pp.x + fract * (pd.x - pp.x)")))
T("actual_proximal: tests in the other order (0 before 1)", "DIFFERENT", P, variant(P, ("if fract == 1:\n        return parent.distal\n    elif fract == 0:\n        return self.get_actual_proximal(segment.parent.segments)", "if fract == 0:\n        return self.get_actual_proximal(segment.parent.segments)\n    elif fract == 1:\n        return parent.distal")))
T("actual_proximal: parent looked up AFTER the fraction test would skip it", "DIFFERENT", P, variant(P, ("    parent = self.get_segment(segment.parent.segments)\n", ""), ("    if fract == 1:", "    parent = self.get_segment(segment.parent.segments)\n    if fract == 1:")) .replace("fract = float(segment.parent.fraction_along)\n    parent = self.get_segment(segment.parent.segments)", "fract = float(segment.parent.fraction_along)\n    if fract == 0:\n        return self.get_actual_proximal(segment.parent.segments)\n    parent = self.get_segment(segment.parent.segments)"))
T("get_segment_length: distance from prox to distal (argument order)", "DIFFERENT", GL, variant(GL, ("segment.distal.distance_to(prox)", "prox.distance_to(segment.distal)")))
T("get_segment_length: actual proximal fetched before the test", "DIFFERENT", GL, '''
def get_segment_length(self, segment_id):
    segment = self.get_segment(segment_id)
    prox = self.get_actual_proximal(segment_id)
    if segment.proximal:
        return segment.length
    return segment.distal.distance_to(prox)
''')
T("get_segment_volume: uses surface_area", "DIFFERENT", GV, variant(GV, ("temp_seg.volume", "temp_seg.surface_area")))
T("get_segment_volume: Segment(proximal=segment.distal, distal=prox)", "DIFFERENT", GV, variant(GV, ("Segment(distal=segment.distal, proximal=prox)", "Segment(distal=prox, proximal=segment.distal)")))
# ---------------- must be refused
T("tuple swap", "GAP", L, variant(L, ("    prox_x = self.proximal.x\n    prox_y = self.proximal.y", "    prox_x = self.proximal.x\n    prox_y = self.proximal.y\n    prox_x, prox_y = prox_y, prox_x")))
T("seeded 4 isclose", "GAP", A, variant(A, ("self.proximal.x == self.distal.x", "math.isclose(self.proximal.x, self.distal.x)")))
T("renamed parameter", "GAP", GL, variant(GL, ("segment_id", "seg_id")))
T("abs()", "GAP", V, variant(V, ("return volume", "return abs(volume)")))
T("message without leading constant", "GAP", L, variant(L, ("'Cannot get length of segment ' + str(self.id)", "str(self.id)")))

bad = 0
for name, expect, key, src in tests:
    st = status(key, src)
    ok = st.startswith(expect)
    bad += not ok
    print("%-4s %-9s %s.%s: %s%s" % ("ok" if ok else "BAD", expect, key[0], key[1], name, "" if ok else "   -> " + st))
print("tests:", len(tests), "bad:", bad)
sys.exit(1 if bad else 0)
