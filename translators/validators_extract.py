"""nml.py + bundled XSD -> lean/NmlVerif/Gen/Validators.lean  (C02 / C03 second pass).

Python side (re-read from fw.REPO's nml.py on every run, by AST; anything not recognised is a gap, never skipped):

* `GeneratedsSuper.gds_validate_simple_patterns`: which `re` function is called, whether `str(target)` is taken,
  what is demanded of the match object (`is not None` AND `len(mo.group(0)) == len(target)`), and the loop structure
  "every group / some pattern of the group"  ->  `patCheck : PatCheck`.
* `GeneratedsSuper.gds_validate_defined_ST_`: calls the validator iff `value is not None`.
* every `validate_<SimpleType>(self, value)` method of every class, statement by statement: the guard
  `value is not None and Validate_simpletypes_ and self.gds_collector_ is not None`, the `isinstance` base-type test
  (message + `return False`), then the steps (pattern table / enumeration list / comparisons with literals), each of
  which must add a message to the collector  ->  one `PyType` per DISTINCT (name, body); two copies of one name that
  differ yield two entries and break the obligation `py_types_functional`.
* every `validate_<T>_patterns_` class attribute: a list of lists of pattern texts; each text is parsed by Python's own
  `re._parser` (the reader the validators use) and mapped to an `Rx` term; `^` / `$` are recorded, not dropped.
* module flag `Validate_simpletypes_` must be the constant True.

XSD side: every `xs:simpleType` (base, pattern / enumeration / min-max facets) -> `XsdType`; the pattern text is parsed
by the same parser (the schema's dialect is inside the common subset; anything else is refused) but `\\s` is emitted as
the four XSD space characters, not as Python's `str.isspace`.
"""
import ast
import os
import re
import sys
from fractions import Fraction

sys.path.insert(0, os.path.dirname(os.path.abspath(__file__)))
import xsd_extract  # noqa
from c19_rx import Gap, sre_parse, sre_c  # noqa

XSD_SPACES = [(32, 32), (9, 9), (10, 10), (13, 13)]


# ------------------------------------------------------------------------------------------------ patterns -> Rx
def _chr(c):
    if 32 <= c < 127 and chr(c) not in "'\\":
        return "(Rx.Rx.chr '%s')" % chr(c)
    return "(Rx.Rx.chr (Char.ofNat %d))" % c


def _set(items, xsd):
    ranges, space = [], False
    for op, av in items:
        if op is sre_c.LITERAL:
            ranges.append((av, av))
        elif op is sre_c.RANGE:
            ranges.append((av[0], av[1]))
        elif op is sre_c.CATEGORY and av is sre_c.CATEGORY_SPACE:
            space = True
        else:
            # \d, \w, negation ...: Python's are Unicode-aware, XSD's are not — not in the schema's dialect
            raise Gap("character class item %s %r" % (op, av))
    if space and xsd:
        ranges, space = ranges + XSD_SPACES, False
    return "(.set ⟨[%s], %s⟩)" % (", ".join("(%d, %d)" % r for r in ranges), "true" if space else "false")


def _seq(items):
    if not items:
        return ".eps"
    if len(items) == 1:
        return items[0]
    return "(.seq %s %s)" % (items[0], _seq(items[1:]))


def _tr_seq(sub, xsd):
    return _seq([_tr(op, av, xsd) for op, av in sub])


def _tr(op, av, xsd):
    if op is sre_c.LITERAL:
        return _chr(av)
    if op is sre_c.IN:
        return _set(av, xsd)
    if op is sre_c.MAX_REPEAT:
        lo, hi, sub = av
        x = _tr_seq(sub, xsd)
        if (lo, hi) == (0, 1):
            return "(Rx.Rx.opt %s)" % x
        if lo == 0 and hi is sre_c.MAXREPEAT:
            return "(.star %s)" % x
        if lo == 1 and hi is sre_c.MAXREPEAT:
            return "(Rx.Rx.plus %s)" % x
        raise Gap("repeat {%s,%s}" % (lo, hi))
    if op is sre_c.SUBPATTERN:
        group, add_flags, del_flags, sub = av
        if add_flags or del_flags:
            raise Gap("inline flags")
        return _tr_seq(sub, xsd)
    if op is sre_c.BRANCH:
        _, alts = av
        xs = [_tr_seq(a, xsd) for a in alts]
        out = xs[-1]
        for x in reversed(xs[:-1]):
            out = "(.alt %s %s)" % (x, out)
        return out
    if op is sre_c.CATEGORY and av is sre_c.CATEGORY_SPACE:
        return _set([(op, av)], xsd)
    raise Gap("regular-expression construct %s" % (op,))


def parse_pattern(text, xsd):
    """-> (anchorStart, anchorEnd, Lean Rx term).  Python side: anchors are `^` first / `$` last at top level; the
    XSD side has none (an XSD pattern is implicitly anchored) and `^`/`$` would be literal characters there."""
    if xsd and re.search(r"(?<!\\)[\^$]|\\[dDwWiIcCpPbBAZ]|\[\^|&&|-\[", text):
        raise Gap("XSD pattern %r uses a construct whose meaning differs between XSD and Python" % text)
    try:
        tree = sre_parse.parse(text)
    except Exception as e:
        raise Gap("pattern %r does not parse: %s" % (text, e))
    if tree.state.flags & ~re.UNICODE:
        raise Gap("pattern flags %s" % tree.state.flags)
    data = list(tree)
    a0 = a1 = False
    if data and data[0][0] is sre_c.AT and data[0][1] is sre_c.AT_BEGINNING:
        a0, data = True, data[1:]
    if data and data[-1][0] is sre_c.AT and data[-1][1] is sre_c.AT_END:
        a1, data = True, data[:-1]
    if a0 or a1:
        # generateDS wraps `^(` … `)$`: between the anchors there must be exactly one group
        if not (len(data) == 1 and data[0][0] is sre_c.SUBPATTERN):
            raise Gap("anchored pattern %r is not of the form ^( … )$" % text)
    return a0, a1, _tr_seq(data, xsd)


# ------------------------------------------------------------------------------------------------ nml.py
def _u(n):
    return ast.unparse(n)


GUARD = "value is not None and Validate_simpletypes_ and (self.gds_collector_ is not None)"
KINDS = {"<": "minInclusive", "<=": "minExclusive", ">": "maxInclusive", ">=": "maxExclusive"}
CMP = {"<": ".lt", "<=": ".le", ">": ".gt", ">=": ".ge"}


def _adds_message(body, must_contain):
    """the statements of a failing branch: optional `lineno = …`, ONE add_message whose text names the facet,
    optionally `result = False`; nothing else"""
    seen = False
    for st in body:
        s = _u(st)
        if s == "lineno = self.gds_get_node_lineno_()" or s == "result = False":
            continue
        if isinstance(st, ast.Expr) and s.startswith("self.gds_collector_.add_message(") and must_contain in s:
            seen = True
            continue
        return False
    return seen


def parse_validator(fn, gaps, where):
    """validate_<T> -> {"name", "base", "steps": [...]} or None (gap recorded)"""
    name = fn.name[len("validate_"):]

    def gap(msg, node=None):
        gaps.append("%s.%s line %s: %s" % (where, fn.name, getattr(node, "lineno", fn.lineno), msg))
        return None
    if [a.arg for a in fn.args.args] != ["self", "value"] or fn.args.defaults or fn.args.vararg or fn.args.kwarg:
        return gap("signature")
    body = list(fn.body)
    if body and _u(body[0]) == "result = True":
        body = body[1:]
    if body and _u(body[-1]) == "return result":
        body = body[:-1]
    if len(body) != 1 or not isinstance(body[0], ast.If) or body[0].orelse or _u(body[0].test) != GUARD:
        return gap("guard is not `%s`" % GUARD)
    inner = list(body[0].body)
    if not inner or not isinstance(inner[0], ast.If) or inner[0].orelse:
        return gap("no base-type test")
    m = re.fullmatch(r"not isinstance\(value, (str|int|float)\)", _u(inner[0].test))
    if not m:
        return gap("base-type test %r" % _u(inner[0].test), inner[0])
    base = m.group(1)
    tb = inner[0].body
    if not (len(tb) == 3 and _u(tb[0]) == "lineno = self.gds_get_node_lineno_()"
            and _u(tb[1]).startswith("self.gds_collector_.add_message(") and "base simple type (%s)" % base in _u(tb[1])
            and _u(tb[2]) == "return False"):
        return gap("base-type branch does not add a message and return False", inner[0])
    steps = []
    i = 1
    while i < len(inner):
        st = inner[i]
        s = _u(st)
        if isinstance(st, ast.Pass) or s == "value = value":
            i += 1
            continue
        if isinstance(st, ast.Assign) and s.startswith("enumerations = "):
            try:
                vals = ast.literal_eval(st.value)
            except Exception:
                return gap("enumerations not a literal", st)
            nxt = inner[i + 1] if i + 1 < len(inner) else None
            if not (isinstance(nxt, ast.If) and not nxt.orelse and _u(nxt.test) == "value not in enumerations"
                    and _adds_message(nxt.body, "enumeration restriction on %s" % name)):
                return gap("enumeration list without its membership test", st)
            if not (isinstance(vals, list) and all(isinstance(v, (str, int, float)) and not isinstance(v, bool) for v in vals)):
                return gap("enumeration values %r" % (vals,), st)
            steps.append(["enum", vals])
            i += 2
            continue
        if isinstance(st, ast.If) and not st.orelse:
            t = _u(st.test)
            if t == "not self.gds_validate_simple_patterns(self.validate_%s_patterns_, value)" % name:
                if not _adds_message(st.body, "pattern restrictions"):
                    return gap("pattern test does not add a message", st)
                steps.append(["patterns"])
                i += 1
                continue
            mm = re.fullmatch(r"value (<|<=|>|>=) (-?[0-9]+(?:\.[0-9]+)?(?:[eE]-?[0-9]+)?)", t)
            if mm:
                if not _adds_message(st.body, "xsd %s restriction on %s" % (KINDS[mm.group(1)], name)):
                    return gap("comparison `%s` does not add the %s message" % (t, KINDS[mm.group(1)]), st)
                steps.append(["bound", mm.group(1), mm.group(2)])
                i += 1
                continue
        return gap("statement not understood: %s" % s[:120], st)
    return {"name": name, "base": base, "steps": steps}


PATCHECK_SHAPE = """found1 = True
target = str(target)
for patterns1 in patterns:
    found2 = False
    for patterns2 in patterns1:
        mo = re_.%(fn)s(patterns2, target%(flags)s)
        if %(test)s:
            found2 = True
            break
    if not found2:
        found1 = False
        break
return found1"""
TESTS = {
    "mo is not None and len(mo.group(0)) == len(target)": ".fullLen",
    "mo is not None and mo.group(0) == target": ".fullLen",        # a prefix of equal length is the target
    "mo is not None": ".noTest",
}
FNS = {"search": ".search", "match": ".pmatch", "fullmatch": ".fullmatch"}


def parse_patcheck(fn, gaps):
    body = "\n".join(_u(s) for s in fn.body if not (isinstance(s, ast.Expr) and isinstance(s.value, ast.Constant)))
    if [a.arg for a in fn.args.args] != ["self", "patterns", "target"]:
        gaps.append("gds_validate_simple_patterns: signature")
        return None
    for f, lf in FNS.items():
        for t, lt in TESTS.items():
            for flags, asc in (("", False), (", re_.ASCII", True), (", re_.A", True), (", flags=re_.ASCII", True)):
                if body == PATCHECK_SHAPE % {"fn": f, "test": t, "flags": flags}:
                    return {"fn": lf, "str": True, "test": lt, "ascii": asc, "fn_py": f, "test_py": t,
                            "shape": "re_.%s(p, target%s); %s" % (f, flags, t)}
    gaps.append("gds_validate_simple_patterns: body not understood: %s" % body[:300].replace("\n", " | "))
    return None


FMT_FLOAT_OLD = 'value = (\'%.15f\' % float(input_data)).rstrip(\'0\')\nif value.endswith(\'.\'):\n    value += \'0\'\nreturn value'
FMT_DOUBLE_OLD = "return '%s' % input_data"
SPECIALS = "return {'inf': 'INF', '-inf': '-INF', 'nan': 'NaN'}.get(value, value)"
FMT_FLOAT_NEW = FMT_FLOAT_OLD[:-len("return value")] + SPECIALS
FMT_DOUBLE_NEW = "value = '%s' % input_data\n" + SPECIALS
PARSE_FLOAT = "try:\n    fval_ = float(input_data)\nexcept (TypeError, ValueError) as exp:\n    raise_parse_error(node, %s %% exp)\nreturn fval_"


def parse_float_codecs(fns, gaps):
    """which spelling gds_format_float / gds_format_double give the non-finite values, and that gds_parse_float /
    gds_parse_double read through float() (which accepts INF, -INF, NaN in any case)"""
    out = {}

    def _aug(txt):
        # `x += e` and `x = x + e` are the same statement for the str locals of these codecs (immutable values):
        # compare both sides in the `x = x + e` spelling
        return None if txt is None else re.sub(r"(?m)^(\s*)(\w+) \+= (.+)$", r"\1\2 = \2 + \3", txt)
    for name, old, new in (("gds_format_float", FMT_FLOAT_OLD, FMT_FLOAT_NEW), ("gds_format_double", FMT_DOUBLE_OLD, FMT_DOUBLE_NEW)):
        f = fns.get(name)
        body = _aug("\n".join(_u(x) for x in f.body) if f is not None else None)
        old, new = _aug(old), _aug(new)
        if body == old:
            out[name] = False
        elif body == new:
            out[name] = True
        else:
            gaps.append("%s: body not understood: %s" % (name, (body or "missing")[:200].replace("\n", " | ")))
            out[name] = False
    for name, msg in (("gds_parse_float", "'Requires float or double value: %s'"), ("gds_parse_double", "'Requires double or float value: %s'")):
        f = fns.get(name)
        body = "\n".join(_u(x) for x in f.body) if f is not None else None
        # the local holding the parsed value may have any name (a consistent rename of a local is behaviour-preserving):
        # rename its Name nodes (never text inside string literals) to the canonical `fval_`; anything else is still a gap
        if f is not None and len(f.body) >= 2 and isinstance(f.body[-1], ast.Return) and isinstance(f.body[-1].value, ast.Name):
            loc = f.body[-1].value.id
            used = {n.id for n in ast.walk(f) if isinstance(n, ast.Name)} | {a.arg for a in f.args.args}
            if loc != "fval_" and "fval_" not in used and loc not in {a.arg for a in f.args.args} | {"exp", "float", "raise_parse_error"}:
                import copy as _copy
                g = _copy.deepcopy(f)
                for n in ast.walk(g):
                    if isinstance(n, ast.Name) and n.id == loc:
                        n.id = "fval_"
                body = "\n".join(_u(x) for x in g.body)
        out[name] = body == PARSE_FLOAT % msg
        if not out[name]:
            gaps.append("%s: body not understood: %s" % (name, (body or "missing")[:200].replace("\n", " | ")))
    return out


DEFINED_ST = "if value is not None:\n    try:\n        validator(value)\n    except GDSParseError as parse_error:\n        self.gds_collector_.add_message(str(parse_error))"


def extract_py(repo):
    path = os.path.join(repo, "neuroml", "nml", "nml.py")
    tree = ast.parse(open(path).read())
    gaps = []
    out = {"validators": [], "tables": [], "patcheck": None}
    # module flag
    flag = [n for n in tree.body if isinstance(n, ast.Assign) and _u(n.targets[0]) == "Validate_simpletypes_"]
    if len(flag) != 1 or _u(flag[0].value) != "True":
        gaps.append("Validate_simpletypes_ is not the constant True")
    if any(isinstance(n, (ast.Assign, ast.AugAssign)) and "Validate_simpletypes_" in _u(n).split("=")[0]
           for n in ast.walk(tree) if n not in flag):
        gaps.append("Validate_simpletypes_ is assigned more than once")
    # `re_` must be the standard module
    if not any(isinstance(n, ast.Import) and any(a.name == "re" and a.asname == "re_" for a in n.names) for n in tree.body):
        gaps.append("`import re as re_` not found at module level")
    gs = [n for n in ast.walk(tree) if isinstance(n, ast.ClassDef) and n.name == "GeneratedsSuper"]
    if len(gs) != 1:
        gaps.append("GeneratedsSuper defined %d times" % len(gs))
    for g in gs[:1]:
        fns = {b.name: b for b in g.body if isinstance(b, ast.FunctionDef)}
        if "gds_validate_simple_patterns" in fns:
            out["patcheck"] = parse_patcheck(fns["gds_validate_simple_patterns"], gaps)
        else:
            gaps.append("GeneratedsSuper.gds_validate_simple_patterns not found")
        out["codecs"] = parse_float_codecs(fns, gaps)
        d = fns.get("gds_validate_defined_ST_")
        if d is None or "\n".join(_u(s) for s in d.body) != DEFINED_ST:
            gaps.append("gds_validate_defined_ST_: body not understood")
    for c in tree.body:
        if not isinstance(c, ast.ClassDef):
            continue
        for b in c.body:
            if isinstance(b, ast.FunctionDef) and b.name.startswith("validate_") and b.name != "validate_":
                v = parse_validator(b, gaps, c.name)
                if v is not None:
                    v["cls"] = c.name
                    out["validators"].append(v)
            if isinstance(b, ast.Assign) and len(b.targets) == 1 and isinstance(b.targets[0], ast.Name):
                m = re.fullmatch(r"validate_(\w+)_patterns_", b.targets[0].id)
                if m:
                    try:
                        v = ast.literal_eval(b.value)
                        assert isinstance(v, list) and all(isinstance(g, list) and all(isinstance(p, str) for p in g) for g in v)
                    except Exception:
                        gaps.append("%s.%s is not a literal list of lists of strings" % (c.name, b.targets[0].id))
                        continue
                    out["tables"].append({"cls": c.name, "name": m.group(1), "groups": v})
    # a pattern step needs its table in the SAME class body (that is where generateDS puts it)
    tb = {(t["cls"], t["name"]): t["groups"] for t in out["tables"]}
    for v in out["validators"]:
        for st in v["steps"]:
            if st[0] == "patterns":
                g = tb.get((v["cls"], v["name"]))
                if g is None:
                    gaps.append("%s.validate_%s uses a pattern table the class does not define" % (v["cls"], v["name"]))
                    g = []
                st.append(g)
    out["gaps"] = gaps
    return out


# ------------------------------------------------------------------------------------------------ emit
def rat(s):
    f = Fraction(str(s)) if not isinstance(s, float) else Fraction(repr(s))
    if f.denominator == 1:
        return "(%d : Rat)" % f.numerator
    return "((%d : Rat) / %d)" % (f.numerator, f.denominator)


def lchars(s):
    return "[%s]" % ", ".join("Char.ofNat %d" % ord(c) for c in s)


def pyval(v):
    if isinstance(v, str):
        return "(.str %s)" % lchars(v)
    if isinstance(v, int):
        return "(.int %d)" % v if v >= 0 else "(.int (%d))" % v
    return "(.float %s)" % rat(v)


BUILTIN = {"xs:string": ".string", "xs:double": ".double", "xs:float": ".float", "xs:nonNegativeInteger": ".nonNegativeInteger",
           "xs:positiveInteger": ".positiveInteger", "xs:integer": ".integer"}
PYB = {"str": ".str", "int": ".int", "float": ".float"}


def regenerate(repo, lean_dir, ix):
    """-> (info dict for the harness, gaps).  `ix`: interned names of Gen/Names.lean (name -> Nat)"""
    P = extract_py(repo)
    gaps = ["validators: " + g for g in P["gaps"]]
    X = xsd_extract.extract(repo)
    pats = {}     # (text, xsd) -> def name

    def pat_def(text, xsd):
        k = (text, xsd)
        if k not in pats:
            a0, a1, term = parse_pattern(text, xsd)
            pats[k] = ("%s_%d" % ("xpat" if xsd else "ppat", len(pats)), a0, a1, term)
        return pats[k]

    def nm(s):
        if s not in ix:
            gaps.append("validators: name %s is not interned" % s)
            return 0
        return ix[s]
    # distinct python validators
    seen, pytypes, copies = {}, [], {}
    for v in P["validators"]:
        key = repr((v["name"], v["base"], v["steps"]))
        copies.setdefault(v["name"], []).append(v["cls"])
        if key in seen:
            continue
        seen[key] = True
        steps = []
        for st in v["steps"]:
            try:
                if st[0] == "patterns":
                    groups = []
                    for g in st[1]:
                        ps = []
                        for text in g:
                            d, a0, a1, _ = pat_def(text, False)
                            ps.append("⟨%s, %s, %s⟩" % ("true" if a0 else "false", "true" if a1 else "false", d))
                        groups.append("[%s]" % ", ".join(ps))
                    steps.append("(.patterns [%s])" % ", ".join(groups))
                elif st[0] == "enum":
                    steps.append("(.enum [%s])" % ", ".join(pyval(x) for x in st[1]))
                else:
                    steps.append("(.bound %s %s)" % (CMP[st[1]], rat(st[2])))
            except Gap as e:
                gaps.append("validators: %s.validate_%s: %s" % (v["cls"], v["name"], e))
        pytypes.append("  ⟨%d, %s, [%s]⟩" % (nm(v["name"]), PYB[v["base"]], ", ".join(steps)))
    xtypes = []
    for s in X["stypes"]:
        b = BUILTIN.get(s["base"])
        if b is None:
            gaps.append("validators: simpleType %s has base %s" % (s["name"], s["base"]))
            continue
        try:
            ps = [pat_def(p, True)[0] for p in s["patterns"]]
        except Gap as e:
            gaps.append("validators: xsd %s: %s" % (s["name"], e))
            ps = []
        numeric = s["base"] in ("xs:double", "xs:float")
        try:
            enums = [pyval(float(e)) if numeric else pyval(e) for e in s["enums"]]
            bounds = ["(.%s, %s)" % (k, rat(v)) for k, v in s["bounds"].items()]
        except Exception as e:
            gaps.append("validators: xsd %s: facet value: %r" % (s["name"], e))
            enums, bounds = [], []
        # facet order: the order of the facets in the schema (dict preserves it)
        xtypes.append("  ⟨%d, %s, [%s], [%s], [%s]⟩" % (nm(s["name"]), b, ", ".join(ps), ", ".join(enums), ", ".join(bounds)))
    pc = P["patcheck"]
    cod = P.get("codecs", {})
    lb = lambda b: "true" if b else "false"
    pcl = ("⟨%s, %s, %s, %s⟩" % (pc["fn"], "true" if pc["str"] else "false", pc["test"], "true" if pc["ascii"] else "false")
           if pc else "⟨.search, false, .noTest, false⟩")
    defs = "\n".join("/-- `%s` -/\ndef %s : Rx.Rx :=\n  %s\n" % (k[0].replace("-/", "- /"), v[0], v[3]) for k, v in pats.items())
    src = ("import NmlVerif.Model.Facets\n"
           "/-! GENERATED by translators/validators_extract.py from neuroml/nml/nml.py and %s — do not edit. -/\n"
           "namespace NmlVerif.Gen.Validators\nopen NmlVerif NmlVerif.Rx NmlVerif.Facets\n\n%s\n"
           "/-- extracted shape of `GeneratedsSuper.gds_validate_simple_patterns` -/\ndef patCheck : PatCheck := %s\n\n"
           "/-- the distinct `validate_<SimpleType>` methods of nml.py (%d methods in all) -/\n"
           "def pyTypes : List PyType := [\n%s\n]\n\n"
           "/-- the simple types of the schema -/\ndef xsdTypes : List XsdType := [\n%s\n]\n\n"
           "def nValidatorCopies : Nat := %d\n\n"
           "/-- `gds_format_float` / `gds_format_double` spell the non-finite values INF, -INF, NaN (extracted) -/\n"
           "def floatSpecials : Bool := %s\ndef doubleSpecials : Bool := %s\n"
           "/-- `gds_parse_float` / `gds_parse_double` read through `float()` (extracted) -/\n"
           "def parseThroughFloat : Bool := %s\n"
           "end NmlVerif.Gen.Validators\n"
           % (os.path.basename(X["path"]), defs, pcl, len(P["validators"]), ",\n".join(pytypes), ",\n".join(xtypes),
              len(P["validators"]), lb(cod.get("gds_format_float")), lb(cod.get("gds_format_double")),
              lb(cod.get("gds_parse_float") and cod.get("gds_parse_double"))))
    out_path = os.path.join(lean_dir, "NmlVerif", "Gen", "Validators.lean")
    old = open(out_path).read() if os.path.exists(out_path) else None
    if old != src:
        with open(out_path, "w") as fh:
            fh.write(src)
    info = {"patcheck": pc, "codecs": cod, "copies": copies, "validators": P["validators"], "tables": P["tables"],
            "stypes": X["stypes"], "n_patterns": len(pats)}
    return info, gaps


if __name__ == "__main__":
    import json
    names = json.load(open(os.path.join(os.path.dirname(__file__), "..", "lean", "NmlVerif", "Gen", "bindings_names.json")))["names"]
    ix = {n: i for i, n in enumerate(names)}
    info, gaps = regenerate(sys.argv[1] if len(sys.argv) > 1 else "/repo",
                            os.path.join(os.path.dirname(__file__), "..", "lean"), ix)
    print(len(info["validators"]), "validator methods,", len(info["tables"]), "pattern tables,", info["n_patterns"], "patterns; patcheck:",
          info["patcheck"])
    print("codecs:", info["codecs"])
    print("gaps:", gaps[:10])
