"""NeuroML_<current>.xsd -> schema IR (complex types with attributes and content particles, simple types with facets).

Group references are inlined.  Every element particle also gets its *effective* occurrence range (own min/max
combined with those of the enclosing sequence/choice), which is what the bindings encode per member.
Anything outside the XSD subset the schema uses is recorded under `gaps`.
"""
import os
import re
import sys

from lxml import etree

XS = "{http://www.w3.org/2001/XMLSchema}"


def occ(e):
    lo = int(e.get("minOccurs", "1"))
    hi = e.get("maxOccurs", "1")
    hi = None if hi == "unbounded" else int(hi)
    return lo, hi


def mul(a, b):
    lo = a[0] * b[0]
    hi = None if (a[1] is None or b[1] is None) else a[1] * b[1]
    return lo, hi


def current_xsd(repo):
    ns = {}
    exec(open(os.path.join(repo, "neuroml", "__version__.py")).read(), ns)
    ver = ns.get("current_neuroml_version")
    return os.path.join(repo, "neuroml", "nml", "NeuroML_%s.xsd" % ver), ver


def extract(repo):
    path, ver = current_xsd(repo)
    root = etree.parse(path).getroot()
    gaps = []
    groups = {g.get("name"): g for g in root.findall(XS + "group")}

    def particle(e):
        t = e.tag
        if not isinstance(t, str):
            return None
        t = t.replace(XS, "")
        lo, hi = occ(e)
        if t == "element":
            if e.get("ref"):
                gaps.append("element ref %s" % e.get("ref"))
                return None
            return {"k": "elem", "tag": e.get("name"), "type": e.get("type"), "lo": lo, "hi": hi}
        if t in ("sequence", "choice", "all"):
            ps = [p for p in (particle(c) for c in e) if p is not None]
            return {"k": {"sequence": "seq"}.get(t, t), "ps": ps, "lo": lo, "hi": hi}
        if t == "any":
            return {"k": "any", "lo": lo, "hi": hi, "processContents": e.get("processContents", "strict")}
        if t == "group":
            g = groups.get(e.get("ref"))
            if g is None:
                gaps.append("group ref %s not found" % e.get("ref"))
                return None
            inner = [p for p in (particle(c) for c in g) if p is not None]
            if len(inner) != 1:
                gaps.append("group %s: %d particles" % (e.get("ref"), len(inner)))
                return None
            p = dict(inner[0])
            p["lo"], p["hi"] = mul((p["lo"], p["hi"]), (lo, hi))
            p["group"] = e.get("ref")
            return p
        if t in ("annotation", "attribute", "anyAttribute", "attributeGroup"):
            return None
        gaps.append("unsupported particle <%s>" % t)
        return None

    def attrs_of(e):
        out = []
        for a in e.findall(XS + "attribute"):
            out.append({"name": a.get("name"), "type": a.get("type"), "use": a.get("use", "optional"),
                        "default": a.get("default"), "fixed": a.get("fixed")})
            if a.get("ref"):
                gaps.append("attribute ref %s" % a.get("ref"))
        if e.find(XS + "anyAttribute") is not None:
            gaps.append("anyAttribute in %s" % e.get("name"))
        return out

    ctypes = []
    for ct in root.findall(XS + "complexType"):
        name = ct.get("name")
        base = None
        body = ct
        cc = ct.find(XS + "complexContent")
        if cc is not None:
            ext = cc.find(XS + "extension")
            if ext is None:
                gaps.append("%s: complexContent without extension" % name)
                continue
            base = ext.get("base")
            body = ext
        if ct.find(XS + "simpleContent") is not None or ct.get("mixed"):
            gaps.append("%s: simpleContent/mixed" % name)
        content = None
        for c in body:
            if isinstance(c.tag, str) and c.tag.replace(XS, "") in ("sequence", "choice", "all", "group"):
                if content is not None:
                    gaps.append("%s: two content particles" % name)
                content = particle(c)
        ctypes.append({"name": name, "base": base, "attrs": attrs_of(body), "content": content,
                       "abstract": ct.get("abstract") == "true"})
    stypes = []
    for st in root.findall(XS + "simpleType"):
        r = st.find(XS + "restriction")
        if r is None:
            gaps.append("simpleType %s without restriction" % st.get("name"))
            continue
        info = {"name": st.get("name"), "base": r.get("base"), "patterns": [], "enums": [], "bounds": {}}
        for f in r:
            if not isinstance(f.tag, str):
                continue
            k = f.tag.replace(XS, "")
            if k == "pattern":
                info["patterns"].append(f.get("value"))
            elif k == "enumeration":
                info["enums"].append(f.get("value"))
            elif k in ("minInclusive", "maxInclusive", "minExclusive", "maxExclusive"):
                info["bounds"][k] = f.get("value")
            elif k == "annotation":
                pass
            else:
                gaps.append("simpleType %s: facet %s" % (st.get("name"), k))
        stypes.append(info)
    elems = [{"name": e.get("name"), "type": e.get("type")} for e in root.findall(XS + "element")]
    return {"path": path, "version": ver, "ctypes": ctypes, "stypes": stypes, "elements": elems, "gaps": gaps,
            "targetNamespace": root.get("targetNamespace")}


def effective_elems(p, outer=(1, 1), in_choice=False, path=()):
    """flatten a particle to [(tag, type, lo, hi, ctx)] with effective ranges; ctx records enclosing choice groups"""
    if p is None:
        return []
    rng = mul((p["lo"], p["hi"]), outer)
    if p["k"] == "elem":
        lo, hi = rng
        if in_choice:
            lo = 0
        return [{"tag": p["tag"], "type": p["type"], "lo": lo, "hi": hi, "choice": in_choice, "path": list(path)}]
    if p["k"] == "any":
        return []
    out = []
    for i, c in enumerate(p["ps"]):
        inner = (1, 1) if p["k"] != "choice" else (1, 1)
        out += effective_elems(c, mul(rng, inner), in_choice or p["k"] == "choice", path + ((p["k"], i),))
    return out


if __name__ == "__main__":
    x = extract(sys.argv[1] if len(sys.argv) > 1 else "/repo")
    print(len(x["ctypes"]), "complex types,", len(x["stypes"]), "simple types, gaps:", x["gaps"][:10])
    import collections
    c = collections.Counter()

    def shape(p):
        if p is None:
            return "empty"
        if p["k"] in ("elem", "any"):
            return p["k"]
        return "%s(%s)" % (p["k"], ",".join(sorted(set(shape(q) for q in p["ps"]))))
    for t in x["ctypes"]:
        c[shape(t["content"])] += 1
    print(c.most_common())
